#!/bin/sh
# Runs every registered quick (or $1=thorough) check on /repo as it is; prints one summary line per property.
tier=${1:-quick}
cd "$(dirname "$0")"
logdir=${ZVERIF_LOGDIR:-/tmp}
rc=0
for i in 01 02 03 04 05 06 07 08 09 10 11 12 13 14 15 16 17 18 19 20; do
    ./check C$i --tier $tier > $logdir/zverif-C$i.log 2>&1
    e=$?
    echo "C$i exit=$e $(grep -E '^OK|^VIOLATION|^HARNESS-ERROR|^KNOWN' $logdir/zverif-C$i.log | head -2 | tr '\n' ' ')"
    [ $e -ne 0 ] && rc=1
done
exit $rc
