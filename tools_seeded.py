#!/usr/bin/env python3
"""Confirm a seeded change written by a sub-agent, run the registered quick check against it and
file it under /verif/seeded/<id>/.

usage: tools_seeded.py <source-dir-with-patch.diff+demo.py> <seed-id e.g. C05-2> [--also=C04,C05] [check args ...]

Steps (all in a scratch worktree of /repo under /tmp, removed afterwards):
  1. apply the patch; the pinned test suite must still pass;
  2. the demonstration must fail (exit != 0) with the change and pass (exit 0) without it;
then the patch is applied to /repo itself, `./check <property>` (quick) is run, and the patch is
reverted straight away (git checkout).  Nothing is ever committed to /repo.
"""
import json
import os
import shutil
import subprocess
import sys
import time

REPO = '/repo'
VERIF = '/verif'


def sh(cmd, cwd=None, env=None, timeout=1800):
    p = subprocess.run(cmd, shell=True, cwd=cwd, env=env, stdout=subprocess.PIPE, stderr=subprocess.STDOUT, timeout=timeout)
    return p.returncode, p.stdout.decode('utf-8', 'replace')


def main():
    src, sid = sys.argv[1], sys.argv[2]
    also = [a.split('=', 1)[1].split(',') for a in sys.argv[3:] if a.startswith('--also=')]
    also = also[0] if also else []
    extra = ' '.join(a for a in sys.argv[3:] if not a.startswith('--also='))
    pid = sid.split('-')[0]
    wt = '/tmp/wt-verify-%s' % sid
    sh('git -C %s worktree remove --force %s' % (REPO, wt))
    rc, out = sh('git -C %s worktree add --detach %s HEAD -q' % (REPO, wt))
    assert rc == 0, out
    meta = dict(seed=sid, property=pid, source=src, at=time.strftime('%Y-%m-%d %H:%M:%S'))
    try:
        env = dict(os.environ, PYTHONPATH=wt + '/src')
        patch = os.path.abspath(os.path.join(src, 'patch.diff'))
        demo = os.path.abspath(os.path.join(src, 'demo.py'))
        rc, out = sh('/venv/bin/python %s' % demo, cwd=wt, env=env, timeout=600)
        meta['demo_without_change'] = rc
        rc, out = sh('git apply %s' % patch, cwd=wt)
        if rc != 0:
            meta['error'] = 'patch does not apply: ' + out[-500:]
            print(json.dumps(meta, indent=1))
            return 2
        rc, out = sh('/venv/bin/python -m pytest -q -p no:cacheprovider --timeout=900 2>&1 | tail -3', cwd=wt, env=env)
        meta['suite_with_change'] = out.strip().splitlines()[-1] if out.strip() else ''
        suite_ok = ' passed' in meta['suite_with_change'] and 'failed' not in meta['suite_with_change']
        rc, out = sh('/venv/bin/python %s' % demo, cwd=wt, env=env, timeout=600)
        meta['demo_with_change'] = rc
        meta['demo_output'] = out[-600:]
        meta['confirmed'] = bool(suite_ok and meta['demo_with_change'] != 0 and meta['demo_without_change'] == 0)
    finally:
        sh('git -C %s worktree remove --force %s' % (REPO, wt))
    if not meta['confirmed']:
        print(json.dumps(meta, indent=1))
        print('NOT CONFIRMED - not kept')
        return 2
    # run the registered check against the change
    rc, out = sh('git -C %s status --porcelain' % REPO)
    assert not out.strip(), '/repo is not clean: ' + out
    rc, out = sh('git -C %s apply %s' % (REPO, patch))
    assert rc == 0, out
    try:
        t0 = time.time()
        rc, out = sh('./check %s %s' % (pid, extra), cwd=VERIF, timeout=3600)
        meta['check_cmd'] = './check %s %s' % (pid, extra)
        meta['check_exit'] = rc
        meta['check_wall_s'] = round(time.time() - t0, 1)
        lines = [l for l in out.splitlines() if l.startswith(('VIOLATION', 'OK ', 'HARNESS-ERROR', '  harness='))]
        meta['check_output'] = lines[:8]
        meta['caught'] = rc == 1
        # checks of other properties that the same change also violates (run only if the own check is silent)
        for other in (also if rc != 1 else []):
            rc2, out2 = sh('./check %s' % other, cwd=VERIF, timeout=3600)
            lines2 = [l for l in out2.splitlines() if l.startswith(('VIOLATION', 'OK ', 'HARNESS-ERROR', '  harness='))]
            meta.setdefault('other_checks', {})[other] = dict(exit=rc2, output=lines2[:4])
            if rc2 == 1:
                meta['caught_by_other'] = other
            sh('rm -rf %s/replays/%s' % (VERIF, other))
    finally:
        sh('git -C %s checkout -- .' % REPO)
        sh('rm -rf %s/replays/%s' % (VERIF, pid))
    dst = os.path.join(VERIF, 'seeded', sid)
    os.makedirs(dst, exist_ok=True)
    shutil.copy(patch, os.path.join(dst, 'patch.diff'))
    shutil.copy(demo, os.path.join(dst, 'demo.py'))
    if os.path.exists(os.path.join(src, 'notes.md')):
        shutil.copy(os.path.join(src, 'notes.md'), os.path.join(dst, 'notes.md'))
    meta.pop('source', None)
    with open(os.path.join(dst, 'meta.json'), 'w') as f:
        json.dump(meta, f, indent=1)
    print(json.dumps({k: meta[k] for k in ('seed', 'confirmed', 'suite_with_change', 'demo_with_change', 'check_exit', 'caught', 'check_output')}, indent=1))
    return 0


if __name__ == '__main__':
    sys.exit(main())
