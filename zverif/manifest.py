"""Regenerates /verif/MANIFEST.json from the harness modules present (python -m zverif.manifest)."""
import importlib
import json
import os

ROOT = os.path.dirname(os.path.dirname(os.path.abspath(__file__)))
ALL = ['C%02d' % i for i in range(1, 21)]
PENDING = 'check not built yet (work in progress in this round); no claim is made'


def main():
    checks = []
    na = []
    for pid in ALL:
        try:
            mod = importlib.import_module('zverif.harness.' + pid.lower())
        except ImportError:
            na.append(dict(property_id=pid, reason=PENDING))
            continue
        m = getattr(mod, 'MANIFEST', None)
        if not m or m.get('not_applicable'):
            na.append(dict(property_id=pid, reason=(m or {}).get('not_applicable', PENDING)))
            continue
        checks.append(dict(
            property_id=pid,
            quick_cmd='./check %s --tier quick' % pid,
            thorough_cmd='./check %s --tier thorough' % pid,
            evidence_file='/verif/evidence/%s.json' % pid,
            replay_cmd_template='./check --replay {path}',
            engine='zverif',
            level_claimed=dict(category='other', text=m['text'], design_ref=m.get('design_ref', 'DESIGN.md section 4')),
            level_note=m['note'],
            technique=m.get('technique', 'bounded symbolic execution of the real code (CrossHair + z3), '
                                         'counterexamples replayed concretely'),
        ))
    man = dict(
        version=1,
        setup_cmd='./setup.sh',
        hooks=dict(
            guard='ZODB_VERIF',
            enable='no source hooks: the checks rebind open/os/locks/clock in the ZODB modules inside their own '
                   'process (zverif.symenv); /repo is imported as it is',
            baseline_off_cmd='cd /repo && /venv/bin/python -m pytest -ra -q -p no:cacheprovider --timeout=900 '
                             '--continue-on-collection-errors',
            source_commits=[],
            add_only=True,
        ),
        engines=[dict(name='zverif', path='/verif/zverif', serves_properties=[c['property_id'] for c in checks],
                      kind_free_text='CrossHair 0.0.110 symbolic execution of /repo/src/ZODB with z3 deciding each '
                                     'branch; explore loop in zverif/worker.py, orchestration/replay/evidence in '
                                     'zverif/engine.py, environment stubs in zverif/symenv')],
        checks=checks,
        not_applicable=na,
        notes='Exit codes: 0 held on everything explored, 1 reproduced violation (VIOLATION line), 3 machinery could '
              'not judge (never a violation, never success). known_findings.jsonl lists open/fixed findings.',
    )
    with open(os.path.join(ROOT, 'MANIFEST.json'), 'w') as f:
        json.dump(man, f, indent=1)
    print('MANIFEST.json: %d checks, %d not_applicable' % (len(checks), len(na)))


if __name__ == '__main__':
    main()
