"""Interpreter for small symbolic programs against the real DB/Connection (H-PROG, DESIGN 3.5).

The op-codes and operands are solver-chosen (api.choose / bool arguments); once chosen, the
ZODB calls run at native speed.  A pure-Python model of what the property promises is kept
alongside and compared after every step."""
from zverif import pobj
from zverif import templates as T
from zverif.api import check, fail, note


class FailingDM:
    """A second transaction participant whose vote (or commit) fails: makes the ZODB connection's
    commit fail at a chosen phase."""

    def __init__(self, tm, phase, first):
        self.transaction_manager = tm
        self.phase = phase
        self.first = first

    def sortKey(self):
        return '\x00first' if self.first else '\x7flast'

    def abort(self, txn):
        pass

    def tpc_begin(self, txn):
        if self.phase == 'begin':
            raise RuntimeError('injected tpc_begin failure')

    def commit(self, txn):
        if self.phase == 'commit':
            raise RuntimeError('injected commit failure')

    def tpc_vote(self, txn):
        if self.phase == 'vote':
            raise RuntimeError('injected vote failure')

    def tpc_finish(self, txn):
        pass

    def tpc_abort(self, txn):
        pass


class World:
    """One database, one working connection, and the model."""

    def __init__(self, storage_kind='file', blob_dir=None):
        import transaction
        import ZODB
        self.env = T.Env()
        if storage_kind == 'file':
            self.s = self.env.filestorage()
        elif storage_kind == 'mapping':
            self.s = self.env.mappingstorage()
        else:
            import ZODB.DemoStorage
            self.s = ZODB.DemoStorage.DemoStorage(base=self.env.mappingstorage())
        self.db = ZODB.DB(self.s)
        self.transaction = transaction
        self.tm = transaction.TransactionManager()
        self.c = self.db.open(self.tm)
        self.root = self.c.root()
        self.committed = {}          # name -> value (model of the committed state)
        self.work = {}               # name -> value (model of the connection's view)
        self.obj = {}                # name -> Python object
        self.fresh = set()           # names created in the current transaction (not yet committed)
        self.sps = []                # [(savepoint, work snapshot, fresh snapshot)]
        self.ever = set()            # names that were committed at some time (they stay stored objects)
        self.dirty = set()           # existing objects modified in the current transaction
        self.explicit = set()        # fresh objects that were added explicitly (stored even if unreachable)
        self.last_stored = set()     # names whose records the last commit must have written
        self.other_changed = set()   # committed objects another connection changed since our last boundary
        self.n = 0
        self.counter = 100

    # -- operations ---------------------------------------------------------
    def names(self):
        return sorted(self.work)

    def modify(self, i):
        names = self.names()
        self.counter += 1
        if not names:
            self.root['scalar'] = self.counter
            self.work_scalar = self.counter
            return 'M-root'
        name = names[i % len(names)]
        self.root[name].v = self.counter
        self.work[name] = self.counter
        if name not in self.fresh:
            self.dirty.add(name)
        return 'M:' + name

    def add(self, explicit=False):
        self.n += 1
        self.counter += 1
        name = 'n%d' % self.n
        ob = pobj.PObj(v=self.counter)
        if explicit:
            self.c.add(ob)
            self.explicit.add(name)
        self.root[name] = ob
        self.obj[name] = ob
        self.work[name] = self.counter
        self.fresh.add(name)
        return 'A:' + name

    def add_child(self, i):
        """A new object attached UNDER an object of the root (not to the root itself): it is stored iff its parent is."""
        names = self.names()
        if not names:
            return None
        parent = names[i % len(names)]
        self.n += 1
        self.counter += 1
        name = 'n%d' % self.n
        ob = pobj.PObj(v=self.counter)
        self.root[parent].child = ob
        if not hasattr(self, 'kids'):
            self.kids = {}
        for k, p_ in list(self.kids.items()):
            if p_ == parent:
                del self.kids[k]              # replaced: no longer reachable
                self.fresh.discard(k)
        self.kids[name] = parent
        self.obj[name] = ob
        self.fresh.add(name)
        if parent not in self.fresh:
            self.dirty.add(parent)
        return 'K:%s<%s' % (name, parent)

    def detach(self, i):
        names = self.names()
        if not names:
            return None
        name = names[i % len(names)]
        del self.root[name]
        del self.work[name]
        return 'D:' + name

    def other_commit(self, i):
        """Another connection changes a committed object and commits (our snapshot does not see it yet)."""
        names = sorted(self.committed)
        if not names:
            return None
        name = names[i % len(names)]
        tm2 = self.transaction.TransactionManager()
        c2 = self.db.open(tm2)
        try:
            self.counter += 1
            c2.root()[name].v = self.counter
            tm2.commit()
        finally:
            c2.close()
        self.committed[name] = self.counter
        self.other_changed.add(name)
        return 'O:' + name

    def _boundary(self):
        """At a transaction boundary our connection catches up with what others committed."""
        for name in self.other_changed:
            if name in self.committed and name in self.work:
                self.work[name] = self.committed[name]
        self.other_changed = set()

    def savepoint(self):
        sp = self.tm.savepoint()
        self.sps.append((sp, dict(self.work), set(self.fresh), getattr(self, 'work_scalar', None), set(self.dirty), set(self.explicit)))
        return 'S%d' % (len(self.sps) - 1)

    def rollback(self, k):
        if not self.sps:
            return None
        k = k % len(self.sps)
        sp, snap, fresh, scalar, dirty, explicit = self.sps[k]
        sp.rollback()
        del self.sps[k + 1:]          # later savepoints are invalidated by the transaction API
        self.work = dict(snap)
        self.fresh = set(fresh)
        self.dirty = set(dirty)
        self.explicit = set(explicit)
        self.work_scalar = scalar
        return 'R%d' % k

    def commit(self):
        from ZODB.POSException import ConflictError
        conflict = bool(self.dirty & self.other_changed)
        try:
            self.tm.commit()
            ok = True
        except ConflictError:
            ok = False
            self.tm.abort()
        check(ok == (not conflict), 'commit outcome differs from the model: a write based on a stale revision was accepted, or a '
                                    'commit without any conflict was refused', 'conflict expected' if conflict else 'no conflict expected')
        if not ok:
            self.work = dict(self.committed)
            self.work_scalar = getattr(self, 'committed_scalar', None)
            self.fresh = set()
            self.dirty = set()
            self.explicit = set()
            self.sps = []
            self.other_changed = set()
            return 'C!conflict'
        # stored: modified existing objects (reachable or not), new objects that are reachable, and new
        # objects that were added explicitly
        stored_fresh = set(n for n in self.fresh if n in self.work or n in self.explicit)
        kids = getattr(self, 'kids', {})
        self.last_stored = set(self.dirty) | stored_fresh | set(k for k, p_ in kids.items() if k in self.fresh and (p_ in self.dirty or p_ in stored_fresh))
        self.ever.update(self.last_stored)
        others = dict((n, self.committed[n]) for n in self.other_changed if n in self.committed)
        self.committed = dict(self.work)
        for n, v in others.items():
            if n not in self.dirty and n in self.committed:
                self.committed[n] = v
        self.dirty = set()
        self.explicit = set()
        self.ever.update(self.work)
        self.committed_scalar = getattr(self, 'work_scalar', None)
        self.fresh = set()
        self.sps = []
        self.work = dict(self.committed)
        self.other_changed = set()
        return 'C'

    def abort(self):
        self.tm.abort()
        self.work = dict(self.committed)
        self.work_scalar = getattr(self, 'committed_scalar', None)
        self.fresh = set()
        self.dirty = set()
        self.explicit = set()
        self.sps = []
        self.other_changed = set()
        return 'X'

    def failing_commit(self, phase, first):
        """Commit that fails because another participant fails in `phase`."""
        dm = FailingDM(self.tm, phase, first)
        self.tm.get().join(dm)
        from ZODB.POSException import ConflictError
        try:
            self.tm.commit()
            fail('commit with a failing participant succeeded')
        except (RuntimeError, ConflictError):
            pass                      # (a conflict with another connection's commit may come first)
        self.tm.abort()
        self.work = dict(self.committed)
        self.work_scalar = getattr(self, 'committed_scalar', None)
        self.fresh = set()
        self.dirty = set()
        self.explicit = set()
        self.sps = []
        self.other_changed = set()
        return 'F:%s%s' % (phase, '<' if first else '>')

    def unpicklable_savepoint(self):
        """A savepoint that fails while the connection serialises its objects (new X -> new Y, then a value that
        cannot be pickled), followed by an abort."""
        names = []
        obs = []
        for _ in range(2):
            self.n += 1
            self.counter += 1
            names.append('n%d' % self.n)
            obs.append(pobj.PObj(v=self.counter))
        X, Y = obs
        X.child = Y
        X.zbad = (lambda: 0)            # pickled after `child` and `v`
        self.root[names[0]] = X
        self.obj[names[0]] = X
        self.obj[names[1]] = Y
        try:
            self.tm.savepoint()
            fail('savepoint of an object that cannot be pickled succeeded')
        except Exception:
            pass
        self.tm.abort()
        del X.zbad
        del X.child
        self.work = dict(self.committed)
        self.work_scalar = getattr(self, 'committed_scalar', None)
        self.fresh = set()
        self.dirty = set()
        self.explicit = set()
        self.sps = []
        self.other_changed = set()
        return 'F:sp-pickle'

    def unpicklable_commit(self, explicit=False):
        """Commit that fails while the connection serialises its objects: a new object X refers to another new
        object Y and, after it, holds a value that cannot be pickled.  explicit: X is handed to the connection with
        add() (not linked from anywhere), and an existing object is modified after that."""
        names = []
        obs = []
        for _ in range(2):
            self.n += 1
            self.counter += 1
            names.append('n%d' % self.n)
            obs.append(pobj.PObj(v=self.counter))
        X, Y = obs
        X.child = Y
        X.bad = (lambda: 0)
        if explicit:
            self.c.add(X)
            self.modify(0)
        else:
            self.root[names[0]] = X
        self.obj[names[0]] = X
        self.obj[names[1]] = Y
        try:
            self.tm.commit()
            fail('commit of an object that cannot be pickled succeeded')
        except Exception:
            pass
        try:
            self.tm.abort()
        except Exception as ex:
            fail('abort after a failed commit raised', type(ex).__name__, str(ex)[:120])
        del X.bad
        del X.child
        self.work = dict(self.committed)
        self.work_scalar = getattr(self, 'committed_scalar', None)
        self.fresh = set()
        self.dirty = set()
        self.explicit = set()
        self.sps = []
        self.other_changed = set()
        return 'F:pickle-add' if explicit else 'F:pickle'

    def readd_disowned(self, where):
        """Every object that was new in a transaction that did not commit belongs to no database - and can be added
        again later: it still has its state."""
        for name, ob in list(self.obj.items()):
            if name not in self.work and name not in self.ever and ob._p_jar is None:
                check(ob._p_oid is None, 'disowned object keeps an oid (%s)' % where, name)
                check(ob._p_changed is not None and 'v' in ob.__dict__,
                      'an object that was new in an aborted / failed transaction lost its state: it cannot be added again (%s)' % where,
                      name, ob._p_changed, sorted(ob.__dict__))
                self.root[name] = ob
                self.work[name] = ob.v
                self.fresh.add(name)

    # -- checks -------------------------------------------------------------
    def check_view(self, where):
        """The working connection shows exactly the model's working state."""
        root = self.root
        keys = sorted(k for k in root.keys() if k != 'scalar')
        check(keys == self.names(), 'objects visible in the connection differ from the model (%s)' % where, keys, self.names())
        for name in keys:
            check(root[name].v == self.work[name], 'object state differs from the model (%s)' % where, name, root[name].v, self.work[name])
        if getattr(self, 'work_scalar', None) is not None:
            check(root.get('scalar') == self.work_scalar, 'root attribute differs from the model (%s)' % where)
        else:
            check('scalar' not in root, 'root attribute that was rolled back / aborted is still there (%s)' % where)
        # objects that were new and whose creation was rolled back / aborted belong to no database any more
        for name, ob in self.obj.items():
            alive = name in self.work or name in self.committed or name in self.ever
            if not alive and name not in self.fresh:
                check(ob._p_jar is None and ob._p_oid is None,
                      'object whose creation was undone still belongs to the connection (%s)' % where, name, ob._p_oid)

    def check_other_connection(self, where):
        """Another connection sees exactly the committed state - never uncommitted or savepoint data."""
        tm2 = self.transaction.TransactionManager()
        c2 = self.db.open(tm2)
        try:
            r2 = c2.root()
            keys = sorted(k for k in r2.keys() if k != 'scalar')
            check(keys == sorted(self.committed), 'another connection sees uncommitted objects / misses committed ones (%s)' % where,
                  keys, sorted(self.committed))
            for name in keys:
                check(r2[name].v == self.committed[name], 'another connection sees a state that was never committed (%s)' % where,
                      name, r2[name].v, self.committed[name])
            check(r2.get('scalar') == getattr(self, 'committed_scalar', None), 'another connection sees an uncommitted root attribute')
        finally:
            tm2.abort()
            c2.close()

    def check_clean(self, where):
        """After a transaction boundary no savepoint data is left behind and objects are clean."""
        check(self.c._savepoint_storage is None, 'temporary savepoint storage left behind (%s)' % where)
        check(not self.c._registered_objects and not self.c._added and not self.c._creating,
              'connection keeps bookkeeping of the finished transaction (%s)' % where)
        for name in self.names():
            ob = self.root[name]
            ob.v
            check(ob._p_changed is False, 'object not clean after the transaction boundary (%s)' % where, name, ob._p_changed)

    def close(self):
        self.tm.abort()
        self.c.close()
        self.db.close()
