"""Object-graph histories built through the real DB/Connection layer (for pack, historical
connections, copy) and a model derived from a storage by iteration (differential oracle:
"before versus after")."""
from zverif.model.revstore import MRec, MTxn, RevStore, NoKey


def model_from_storage(s):
    """RevStore of everything the storage iterates (iteration itself is the subject of C04)."""
    m = RevStore()
    it = s.iterator()
    try:
        for t in it:
            recs = []
            for r in t:
                dt = getattr(r, 'data_txn', None)
                # a back-pointer record holds no bytes of its own: history() reports size 0 for it
                recs.append(MRec(r.oid, r.data, None if (r.data is not None and dt is None) else 0, dt))
            ext = t.extension if hasattr(t, 'extension') else {}
            m.add(MTxn(t.tid, recs, t.user, t.description, ext, status=t.status))
    finally:
        if hasattr(it, 'close'):
            it.close()
    return m


def references(data):
    from ZODB.serialize import referencesf
    return referencesf(data) if data else []


def state_at(m, bound):
    """oid -> data (None = does not exist) as of transactions with tid < bound."""
    out = {}
    for t in m.txns:
        if t.tid < bound:
            for r in t.written():
                out[r.oid] = r.data
    return out


def reachable(state, root=b'\0' * 8):
    seen = set()
    todo = [root]
    while todo:
        o = todo.pop()
        if o in seen:
            continue
        d = state.get(o)
        if d is None:
            continue
        seen.add(o)
        todo.extend(references(d))
    return seen


class G:
    """History G1: root -> a, g(->gchild), c1<->c2 ; updates, garbage, a garbage cycle, an undo whose
    back-pointer crosses earlier transactions, an object written while unreachable, a late object."""

    def __init__(self, env, storage=None, **kw):
        import transaction
        import ZODB
        from persistent.mapping import PersistentMapping as PM
        self.env = env
        self.s = storage if storage is not None else env.filestorage(**kw)
        self.db = ZODB.DB(self.s)
        self.tm = transaction.TransactionManager()
        self.c = self.db.open(self.tm)
        self.PM = PM
        self.names = {}

    def commit(self, note=None):
        if note:
            self.tm.get().note(note)
        self.tm.commit()

    def build(self, variant='G1'):
        PM, tm = self.PM, self.tm
        r = self.c.root()
        if variant in ('G2', 'G3', 'G4', 'G5', 'G6'):
            return self._build_undo_chains(variant)
        r['a'] = PM()
        r['g'] = PM()
        r['g']['child'] = PM()
        r['c1'] = PM()
        r['c1']['peer'] = PM()
        r['c1']['peer']['peer'] = r['c1']
        self.commit('t1 create a, g->child, c1<->c2')
        g = r['g']
        r['a']['x'] = 1
        self.commit('t2 a.x=1')
        del r['g']
        self.commit('t3 drop g (garbage subtree)')
        r['a']['x'] = 2
        self.commit('t4 a.x=2')
        t4 = self.s.lastTransaction()
        if variant != 'G0':
            import base64
            self.db.undo(base64.encodebytes(t4).rstrip(), tm.get())
            self.commit('t5 undo t4')
        del r['c1']
        self.commit('t6 drop the cycle')
        g['late'] = 1                   # g is unreachable but still written: must survive if written after T
        self.commit('t7 write to unreachable g')
        r['b'] = PM()
        r['b']['back'] = r['a']
        self.commit('t8 create b -> a')
        return self

    def _undo_last(self, note):
        import base64
        self.db.undo(base64.encodebytes(self.s.lastTransaction()).rstrip(), self.tm.get())
        self.commit(note)

    def _build_undo_chains(self, variant):
        """G2: an object whose current record is a back-pointer to a back-pointer (change / undo / change /
        undo) and which holds the only reference to another object.  G3: a transaction that unlinks AND
        modifies an object, undone later (the object is garbage in between and is resurrected)."""
        PM = self.PM
        r = self.c.root()
        r['A'] = PM()
        r['A']['B'] = PM()
        r['A']['B']['x'] = 1
        r['keep'] = PM()
        self.commit('t1 root->A->B')
        A = r['A']
        if variant == 'G2':
            A['v'] = 1
            self.commit('t2 change A')
            self._undo_last('t3 undo t2')
            A['v'] = 2
            self.commit('t4 change A again')
            self._undo_last('t5 undo t4: A is now a back-pointer to a back-pointer')
            r['keep']['n'] = 1
            self.commit('t6 unrelated')
            r['keep']['n'] = 2
            self.commit('t7 unrelated')
        elif variant == 'G4':
            # one undo transaction that undoes two transactions of the same object holds TWO records of it (the last
            # one is its revision); a later undo record points back at that revision
            A['v'] = 2
            self.commit('t2 A.v = 2')
            A['v'] = 3
            self.commit('t3 A.v = 3')
            import base64
            ids = [d['id'] for d in self.db.undoLog(0, 2)]
            self.db.undoMultiple(ids, self.tm.get())
            self.commit('t4 undo t3 and t2 in one transaction: two records of A')
            A['v'] = 5
            self.commit('t5 A.v = 5')
            self._undo_last('t6 undo t5: back-pointer to the second record of A in t4')
            r['keep']['n'] = 1
            self.commit('t7 unrelated')
        elif variant == 'G6':
            # an object that is garbage for a while is linked back in by an undo, and a further undo then writes it
            # with a back-pointer to a revision older than the one that was current while it was garbage
            A['v'] = 2
            self.commit('t2 A.v = 2')
            import base64
            t2 = self.s.lastTransaction()
            del r['A']
            self.commit('t3 unlink A: A and B are garbage')
            r['keep']['n'] = 1
            self.commit('t4 unrelated')
            t3 = [t.tid for t in self.s.iterator()][-2]
            self.db.undo(base64.encodebytes(t3).rstrip(), self.tm.get())
            self.commit('t5 undo t3: A is linked again, still in the state of t2')
            self.db.undo(base64.encodebytes(t2).rstrip(), self.tm.get())
            self.commit('t6 undo t2: A back to the state of t1 (back-pointer into the oldest part)')
        elif variant == 'G5':
            # the holder stays reachable; what it referred to is garbage for a while and is linked back in by an undo
            # (the undo record of A is a back-pointer to a revision older than any pack time in between)
            del A['B']
            self.commit('t2 A drops its reference to B: B is garbage')
            r['keep']['n'] = 1
            self.commit('t3 unrelated')
            import base64
            t2 = [t.tid for t in self.s.iterator()][-2]
            self.db.undo(base64.encodebytes(t2).rstrip(), self.tm.get())
            self.commit('t4 undo t2: A refers to B again, B itself was never written again')
            r['keep']['n'] = 2
            self.commit('t5 unrelated')
        else:
            del r['A']
            A['v'] = 2
            self.commit('t2 unlink and modify A in one transaction')
            r['keep']['n'] = 1
            self.commit('t3 unrelated (A and B are garbage here)')
            import base64
            t2 = [t.tid for t in self.s.iterator()][-2]
            self.db.undo(base64.encodebytes(t2).rstrip(), self.tm.get())
            self.commit('t4 undo t2: A and B are reachable again')
            r['keep']['n'] = 2
            self.commit('t5 unrelated')
        return self

    def close(self):
        self.tm.abort()
        self.c.close()
        # keep the storage open: db.close() would close it
