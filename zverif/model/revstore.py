"""RevStore - reference model of a storage as the ordered list of its committed transactions.

Written from the property texts (C04, C06, C07), not from the implementation: every
revision query is answered by scanning the list.  All functions work on symbolic
arguments (plain comparisons on bytes/ints only, no hashing of arguments)."""


class NoKey(Exception):
    """Model's "no such object / revision" (the storages raise POSKeyError, a KeyError)."""


class MRec:
    __slots__ = ('oid', 'data', 'size', 'data_txn')

    def __init__(self, oid, data, size=None, data_txn=None):
        self.oid = oid
        self.data = data                  # bytes, or None for "object does not exist" (un-creation / deletion)
        self.size = len(data) if (size is None and data is not None) else (size or 0)
        self.data_txn = data_txn          # tid of the transaction that physically holds the data (back-pointer), or None

    def __repr__(self):
        return 'MRec(%r, %r)' % (self.oid, self.data)


class MTxn:
    __slots__ = ('tid', 'user', 'desc', 'ext', 'records', 'status', 'kind')

    def __init__(self, tid, records, user=b'', desc=b'', ext=None, status=' ', kind='commit'):
        self.tid = tid
        self.records = records
        self.user = user
        self.desc = desc
        self.ext = ext or {}
        self.status = status
        self.kind = kind

    def written(self):
        """Last record per oid, in first-written order (what the index points at)."""
        out = []
        for r in self.records:
            for i, q in enumerate(out):
                if q.oid == r.oid:
                    out[i] = r
                    break
            else:
                out.append(r)
        return out


class RevStore:
    def __init__(self, txns=None):
        self.txns = list(txns or [])

    def copy(self):
        return RevStore(self.txns)

    def add(self, txn):
        self.txns.append(txn)
        return txn

    # -- helpers ------------------------------------------------------------
    def oids(self):
        out = []
        for t in self.txns:
            for r in t.records:
                if r.oid not in out:
                    out.append(r.oid)
        return sorted(out)

    def revs(self, oid):
        """[(tid, MRec)] oldest first."""
        out = []
        for t in self.txns:
            for r in t.written():
                if r.oid == oid:
                    out.append((t.tid, r))
        return out

    def txn(self, tid):
        for t in self.txns:
            if t.tid == tid:
                return t
        return None

    # -- queries (C04) ------------------------------------------------------
    def last_tid(self):
        return self.txns[-1].tid if self.txns else b'\0' * 8

    def load(self, oid):
        rv = self.revs(oid)
        if not rv or rv[-1][1].data is None:
            raise NoKey(oid)
        return rv[-1][1].data, rv[-1][0]

    def get_tid(self, oid):
        return self.load(oid)[1]

    def load_serial(self, oid, serial):
        for tid, r in self.revs(oid):
            if tid == serial:
                if r.data is None:
                    raise NoKey(oid)
                return r.data
        raise NoKey(oid)

    def load_before(self, oid, before):
        """(data, start, end) | None (exists only later) | NoKey (unknown oid / no object at that time)."""
        rv = self.revs(oid)
        if not rv:
            raise NoKey(oid)
        found = None
        end = None
        for tid, r in rv:
            if tid < before:
                found = (tid, r)
            else:
                end = tid
                break
        if found is None:
            return None
        if found[1].data is None:
            raise NoKey(oid)
        return found[1].data, found[0], end

    def history(self, oid, size=1):
        rv = self.revs(oid)
        if not rv:
            raise NoKey(oid)
        out = []
        for tid, r in reversed(rv):
            if len(out) >= size:
                break
            t = self.txn(tid)
            d = dict(t.ext)
            d.update(tid=tid, size=r.size, user_name=t.user, description=t.desc)
            out.append(d)
        return out

    def undo_log(self, first=0, last=-20):
        if last < 0:
            last = first - last
        out = []
        i = 0
        for t in reversed(self.txns):
            if i >= last:
                break
            if t.status == 'p':
                break
            if t.status != ' ':
                continue
            if i >= first:
                # the transaction's own metadata wins over extension keys of the same name (as in history()): the id
                # is what undo() is called with
                d = dict(t.ext)
                d.update(id=t.tid, user_name=t.user, description=t.desc)
                out.append(d)
            i += 1
        return out

    def iterate(self, start=None, stop=None):
        out = []
        for t in self.txns:
            if start is not None and t.tid < start:
                continue
            if stop is not None and t.tid > stop:
                break
            out.append(t)
        return out

    def current(self):
        """oid -> (data, tid) for objects that currently exist."""
        out = {}
        for oid in self.oids():
            try:
                out[oid] = self.load(oid)
            except NoKey:
                pass
        return out

    def state_before(self, oid, tid):
        """data of oid just before transaction tid (None if it did not exist)."""
        prev = None
        for t, r in self.revs(oid):
            if t < tid:
                prev = r.data
        return prev
