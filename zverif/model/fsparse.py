"""Independent parser of the FileStorage data-file format, written from the layout comment at
the top of ZODB/FileStorage/format.py (not from the reading code).  Concrete bytes only; used
as an oracle ("the file is a sequence of complete transactions and nothing else") and to turn
a file into RevStore form."""
import struct

MAGIC = (b'FS21', b'FS30')   # Python 2 / Python 3 files


class BadFile(Exception):
    pass


class PTxn:
    def __init__(self, pos, tid, tlen, status, user, desc, ext, records):
        self.pos, self.tid, self.tlen, self.status = pos, tid, tlen, status
        self.user, self.desc, self.ext, self.records = user, desc, ext, records


class PRec:
    def __init__(self, pos, oid, tid, prev, tloc, plen, data, back):
        self.pos, self.oid, self.tid, self.prev, self.tloc, self.plen = pos, oid, tid, prev, tloc, plen
        self.data, self.back = data, back


def parse(data, strict=True, check_rec_tid=True):
    """-> list of PTxn.  strict: any trailing or inconsistent byte raises BadFile."""
    if data[:4] not in MAGIC:
        raise BadFile('bad magic %r' % data[:4])
    pos = 4
    out = []
    n = len(data)
    while pos < n:
        if pos + 23 > n:
            raise BadFile('trailing %d bytes at %d: short transaction header' % (n - pos, pos))
        tid, tlen, status, ul, dl, el = struct.unpack('>8sQcHHH', data[pos:pos + 23])
        if pos + tlen + 8 > n:
            raise BadFile('transaction at %d (tlen %d) runs past the end of the file (%d)' % (pos, tlen, n))
        if status == b'c':
            raise BadFile('transaction at %d still has the checkpoint status' % pos)
        if status not in (b' ', b'p', b'u'):
            raise BadFile('invalid status %r at %d' % (status, pos))
        hp = pos + 23
        user = data[hp:hp + ul]
        desc = data[hp + ul:hp + ul + dl]
        ext = data[hp + ul + dl:hp + ul + dl + el]
        rpos = hp + ul + dl + el
        tend = pos + tlen
        recs = []
        while rpos < tend:
            if rpos + 42 > tend:
                raise BadFile('short data header at %d' % rpos)
            oid, rtid, prev, tloc, vlen, plen = struct.unpack('>8s8sQQHQ', data[rpos:rpos + 42])
            if vlen:
                raise BadFile('version length at %d' % rpos)
            if check_rec_tid and rtid != tid:
                raise BadFile('record tid differs from transaction tid at %d' % rpos)
            if tloc != pos:
                raise BadFile('record at %d points to transaction at %d, is in %d' % (rpos, tloc, pos))
            if plen:
                body = data[rpos + 42:rpos + 42 + plen]
                back = 0
                rlen = 42 + plen
            else:
                back = struct.unpack('>Q', data[rpos + 42:rpos + 50])[0]
                body = None
                rlen = 50
            if rpos + rlen > tend:
                raise BadFile('record at %d exceeds its transaction' % rpos)
            if prev >= rpos or back >= rpos:
                raise BadFile('forward pointer at %d' % rpos)
            recs.append(PRec(rpos, oid, rtid, prev, tloc, plen, body, back))
            rpos += rlen
        if rpos != tend:
            raise BadFile('records do not add up at %d' % pos)
        if struct.unpack('>Q', data[tend:tend + 8])[0] != tlen:
            raise BadFile('redundant length mismatch at %d' % tend)
        if out and tid <= out[-1].tid:
            raise BadFile('tid does not increase at %d' % pos)
        out.append(PTxn(pos, tid, tlen, status.decode(), user, desc, ext, recs))
        pos = tend + 8
    return out


def resolve(data, rec):
    """Follow back-pointers of a parsed record to its data (None if it ends in 0)."""
    back = rec.back
    if rec.plen:
        return rec.data
    while back:
        oid, rtid, prev, tloc, vlen, plen = struct.unpack('>8s8sQQHQ', data[back:back + 42])
        if plen:
            return data[back + 42:back + 42 + plen]
        back = struct.unpack('>Q', data[back + 42:back + 50])[0]
    return None
