"""zverif - solver-based (CrossHair/z3) checking of ZODB's real code. See /verif/DESIGN.md."""
