"""Start-up differential self-test: every stub is pushed through the same concrete script as
the facility it replaces (real struct, real files in a temporary directory, real io).  Any
difference aborts the check with the reserved harness-error exit code (translator
validation, Serval-style)."""
import os
import random
import shutil
import struct
import tempfile


def _codec(problems):
    from zverif.symenv import codec
    rnd = random.Random(7)
    fmts = ['>Q', '>8s8s', '>8sQcHHH', '>8s8s8s8sHQ', '>QQ', '>H', '>8s8scHHH', '>B', '>q', '>I', '>2s6s']
    for fmt in fmts:
        n = struct.calcsize(fmt)
        for _ in range(40):
            data = bytes(rnd.randrange(256) for _ in range(n))
            if codec.decode_be(fmt, data) != struct.unpack(fmt, data):
                problems.append('codec.decode_be(%r) differs from struct.unpack on %r' % (fmt, data))
                return
    samples = {'>8s8sQQHQ': (b'12345678', b'abcdefgh', 5, 2 ** 40, 0, 77), '>8sQcHHH': (b'tid-tid!', 99, b'c', 1, 2, 65535),
               '>Q': (2 ** 64 - 1,), '>2s6s': (b'ab', b'cdefgh'), '>q': (-5,), '>8s': (b'short',), '>H': (513,)}
    for fmt, args in samples.items():
        if codec.encode_be(fmt, args) != struct.pack(fmt, *args):
            problems.append('codec.encode_be(%r) differs from struct.pack' % fmt)
    for v in (0, 1, 255, 256, 2 ** 32, 2 ** 63, 2 ** 64 - 1):
        if codec._p64(v) != struct.pack('>Q', v) or codec._u64(codec._p64(v)) != v:
            problems.append('codec p64/u64 differ on %d' % v)


def _script(openf, osm, base, rnd):
    """A scripted mix of buffered file operations; returns observations."""
    obs = []
    p = os.path.join(base, 'f.bin')
    f = openf(p, 'w+b')
    f.write(b'0123456789' * 5)
    f.seek(7)
    obs.append(f.read(5))
    f.write(b'ABC')
    f.seek(0, 2)
    obs.append(f.tell())
    f.seek(3)
    f.truncate()
    obs.append(f.tell())
    f.seek(0)
    obs.append(f.read())
    f.close()
    g = openf(p, 'r+b')
    h = openf(p, 'rb')
    obs.append(h.read(2))
    g.seek(1)
    g.write(b'zz')
    obs.append(h.read(1))        # served from h's buffer: stale on purpose
    g.flush()
    h.seek(0)
    obs.append(h.read())         # in-buffer seek on a real BufferedReader: still stale
    h.close()
    g.seek(0, 2)
    for i in range(30):
        n = rnd.randrange(1, 700)
        g.write(bytes([65 + i % 26]) * n)
        if rnd.random() < .3:
            g.seek(rnd.randrange(0, 50))
            obs.append(g.read(rnd.randrange(1, 9)))
            g.seek(0, 2)
    g.flush()
    obs.append(osm.path.getsize(p))
    g.close()
    with openf(p, 'ab') as a:
        a.write(b'tail')
    with openf(p, 'rb', 0) as u:
        u.seek(-4, 2)
        obs.append(u.read(10))
    q = os.path.join(base, 'g.bin')
    osm.rename(p, q)
    obs.append((osm.path.exists(p), osm.path.exists(q)))
    d = os.path.join(base, 'd', 'e')
    osm.makedirs(d)
    with openf(os.path.join(d, 'x'), 'wb') as x:
        x.write(b'x')
    obs.append(sorted(osm.listdir(os.path.join(base, 'd'))))
    try:
        osm.rmdir(os.path.join(base, 'd'))
        obs.append('rmdir ok')
    except OSError as e:
        obs.append('rmdir ' + type(e).__name__)
    try:
        openf(os.path.join(base, 'nope'), 'rb')
    except OSError as e:
        obs.append(type(e).__name__)
    try:
        osm.remove(os.path.join(base, 'nope'))
    except OSError as e:
        obs.append(type(e).__name__)
    with openf(os.path.join(base, 't.txt'), 'w') as t:
        t.write('a b c\nd e f\n')
    with openf(os.path.join(base, 't.txt')) as t:
        obs.append(t.readlines())
    osm.remove(q)
    obs.append(osm.path.exists(q))
    return obs


def _vfs(problems):
    from zverif.symenv import vfs
    real = tempfile.mkdtemp(prefix='zverif-selftest-')
    try:
        a = _script(open, os, real, random.Random(3))
    finally:
        shutil.rmtree(real, ignore_errors=True)
    fs = vfs.VFS()
    osm = vfs.OS(fs)
    osm.makedirs('/base')
    b = _script(fs.open, osm, '/base', random.Random(3))
    if a != b:
        for i, (x, y) in enumerate(zip(a, b)):
            if x != y:
                problems.append('VFS differs from the real file layer at observation %d: real %r, stub %r' % (i, x, y))
                break
        else:
            problems.append('VFS observation count differs')
    # pure-Python files must agree with the buffered ones on what a reader sees after flush
    fs2 = vfs.VFS(pure=True)
    osm2 = vfs.OS(fs2)
    f = fs2.open('/p', 'w+b')
    f.write(b'hello world')
    f.seek(6)
    f.write(b'W')
    f.seek(0)
    if f.read() != b'hello World':
        problems.append('PyFile read/write mismatch')
    f.truncate(5)
    f.seek(0, 2)
    if f.tell() != 5 or osm2.path.getsize('/p') != 5:
        problems.append('PyFile truncate mismatch')


def _locks(problems):
    try:
        from zverif.symenv import locks
    except ImportError:
        return
    locks.selftest(problems)


def _clock(problems):
    try:
        from zverif.symenv import clock
    except ImportError:
        return
    clock.selftest(problems)


def run():
    problems = []
    for f in (_codec, _vfs, _locks, _clock):
        try:
            f(problems)
        except Exception as e:
            import traceback
            problems.append('%s crashed: %s' % (f.__name__, traceback.format_exc()[-800:]))
    return problems
