"""Clock stubs (DESIGN.md 2.3).  `install(clock)` rebinds the name `time` in the ZODB modules
that read the clock.  ScriptedClock: deterministic, strictly increasing instants (so that runs
are reproducible and CrossHair sees the same path for the same decisions)."""
import sys
import time as _time

_MODULES = ['ZODB.BaseStorage', 'ZODB.utils', 'ZODB.FileStorage.FileStorage', 'ZODB.MappingStorage',
            'ZODB.Connection', 'ZODB.DB', 'ZODB.scripts.repozo', 'ZODB.DemoStorage', 'ZODB.FileStorage.fspack',
            'ZODB.blob', 'ZODB.mvccadapter']


class ScriptedClock:
    def __init__(self, start=1.7e9, step=1.0):
        self.now = start
        self.step = step

    def time(self):
        self.now += self.step
        return self.now

    def gmtime(self, t=None):
        return _time.gmtime(self.now if t is None else t)

    def localtime(self, t=None):
        return _time.gmtime(self.now if t is None else t)

    def sleep(self, s):
        self.now += s

    def __getattr__(self, n):
        return getattr(_time, n)


def install(clock):
    import importlib
    for name in _MODULES:
        try:
            importlib.import_module(name)
        except Exception:
            continue
        d = sys.modules[name].__dict__
        if 'time' in d:
            d['time'] = clock
    return clock


def selftest(problems):
    c = ScriptedClock(1000.0, 2.0)
    a, b = c.time(), c.time()
    if not (a < b) or c.gmtime(a) != _time.gmtime(a):
        problems.append('ScriptedClock misbehaves')
