"""In-memory file system the ZODB modules are pointed at (DESIGN.md 2.1).

Two file implementations share one namespace and one operation log:

* concrete files: a `VRaw(io.RawIOBase)` wrapped by the REAL `io.Buffered*` classes, so
  that what reaches the "disk" - which bytes, in which OS-level write, after which
  flush - is exactly what CPython would hand to the kernel.  Every raw mutating call is
  appended to `fs.log`, counted, offered to the fault injector and to the scheduler
  hook.
* symbolic files (`PyFile`): unbuffered pure Python, used when a file's *length* is a
  symbolic integer over concrete content (crash images, truncated inputs), or when
  symbolic bytes are written (fsIndex.save with symbolic keys).

Validated against the real OS file layer by symenv.selftest.
"""
import errno
import io
import os as _os
import posixpath
import stat as _stat

from zverif import api


class Node:
    __slots__ = ('data', 'symsize', 'mode', 'mtime', 'locked')

    def __init__(self, data=b''):
        self.data = data          # bytes (concrete, or a CrossHair proxy in pure mode)
        self.symsize = None       # symbolic int: effective length is data[:symsize]
        self.mode = 0o644
        self.mtime = 0
        self.locked = False


class InjectedFault(OSError):
    pass


class FuelExhausted(BaseException):
    """Raised by the file layer when a read budget is exceeded (BaseException: must not be swallowed by
    the `except Exception` recovery handlers of the code under test)."""


class VFS:
    def __init__(self, pure=False):
        self.pure = pure
        self.files = {}            # path -> Node
        self.dirs = {'/', '/tmp'}
        self.log = []              # (kind, path, ...) mutating operations in issue order
        self.nops = 0              # number of mutating ops issued
        self.fail_at = None        # index (possibly symbolic) of the mutating op that fails
        self.fail_partial = None   # for a failing write: number of bytes that still get written
        self.fail_errno = errno.ENOSPC
        self.failed = False
        self.fail_sticky = False   # "the disk stays full": once the fault has fired every later write fails too
        self.fault_log = []
        self.hook = None           # scheduler yield hook: hook(kind, path)
        self.ntemp = 0
        self.clock = 0
        self.fds = {}
        self.nextfd = 100
        self.recording = True
        self.read_fuel = None      # optional bound on the number of read operations (termination checks)

    # -- bookkeeping -------------------------------------------------------
    def _yield(self, kind, path):
        if kind == 'read' and self.read_fuel is not None:
            self.read_fuel -= 1
            if self.read_fuel < 0:
                raise FuelExhausted('more than the allowed number of read operations')
        if self.hook is not None:
            self.hook(kind, path)

    def _mutate(self, kind, path, *rest):
        """Called before a mutating op takes effect. May raise an injected fault.
        Short write: the op at fail_at writes only fail_partial bytes and reports that count (as
        write(2) does); the NEXT mutating op then fails with the error."""
        i = self.nops
        self.nops += 1
        if self.failed and self.fail_sticky and kind == 'write' and self.fail_at is not None:
            self.fault_log.append((i, kind, path, 'error (disk still full)'))
            raise InjectedFault(self.fail_errno, 'injected fault: disk still full at op %d (%s %s)' % (i, kind, path))
        if self.fail_at is not None and not self.failed:
            if api.decide(lambda: i == self.fail_at):
                if kind == 'write' and self.fail_partial is not None:
                    n = self.fail_partial
                    self.fail_partial = None
                    self.fail_at = self.nops
                    self.fault_log.append((i, kind, path, 'short'))
                    return ('partial', n)
                self.failed = True
                self.fault_log.append((i, kind, path, 'error'))
                raise InjectedFault(self.fail_errno, 'injected fault at op %d (%s %s)' % (i, kind, path))
        return None

    def _log(self, *entry):
        if self.recording:
            self.log.append(entry)

    def mark(self, *entry):
        self.log.append(('mark',) + entry)

    # -- namespace ---------------------------------------------------------
    def norm(self, p):
        if isinstance(p, bytes):
            p = p.decode()
        p = _os.fspath(p)
        if not p.startswith('/'):
            p = '/' + p
        return posixpath.normpath(p)

    def exists(self, p):
        p = self.norm(p)
        return p in self.files or p in self.dirs

    def listdir(self, p):
        p = self.norm(p)
        if p not in self.dirs:
            if p in self.files:
                raise NotADirectoryError(errno.ENOTDIR, 'not a directory', p)
            raise FileNotFoundError(errno.ENOENT, 'no such directory', p)
        pre = p.rstrip('/') + '/'
        out = set()
        for q in list(self.files) + list(self.dirs):
            if q.startswith(pre) and q != p:
                out.add(q[len(pre):].split('/')[0])
        return sorted(out)

    def snapshot(self, prefix='/'):
        """Concrete image of all files (path -> bytes) and dirs under prefix."""
        return ({p: bytes(n.data) for p, n in self.files.items() if p.startswith(prefix)},
                {d for d in self.dirs if d.startswith(prefix)})

    def content(self, p):
        return self.files[self.norm(p)].data

    def put(self, p, data, symsize=None):
        p = self.norm(p)
        n = Node(data)
        n.symsize = symsize
        self.files[p] = n
        d = posixpath.dirname(p)
        while d not in self.dirs:
            self.dirs.add(d)
            d = posixpath.dirname(d)
        return n

    # -- open --------------------------------------------------------------
    def open(self, name, mode='r', buffering=-1, encoding=None, errors=None, newline=None):
        path = self.norm(name)
        binary = 'b' in mode
        m = mode.replace('b', '').replace('t', '')
        creating = m[0] in 'wax'
        node = self.files.get(path)
        if path in self.dirs:
            raise IsADirectoryError(errno.EISDIR, 'is a directory', path)
        self._yield('open', path)
        if node is None:
            if not creating:
                raise FileNotFoundError(errno.ENOENT, 'No such file or directory', path)
            if posixpath.dirname(path) not in self.dirs:
                raise FileNotFoundError(errno.ENOENT, 'No such directory', path)
            self._mutate('create', path)
            node = Node()
            self.files[path] = node
            self._log('create', path)
        elif m[0] == 'x':
            raise FileExistsError(errno.EEXIST, 'exists', path)
        elif m[0] == 'w':
            self._mutate('truncate', path, 0)
            node.data = b''
            node.symsize = None
            self._log('truncate', path, 0)
        readable = m[0] == 'r' or '+' in m
        writable = m[0] in 'wax' or '+' in m
        if self.pure or node.symsize is not None:
            f = PyFile(self, path, node, readable, writable, append=(m[0] == 'a'))
            if not binary:
                raise NotImplementedError('text mode on symbolic file')
            return f
        raw = VRaw(self, path, node, readable, writable, append=(m[0] == 'a'))
        if buffering == 0:
            if not binary:
                raise ValueError("can't have unbuffered text I/O")
            return raw
        bs = io.DEFAULT_BUFFER_SIZE if buffering < 0 or buffering == 1 else buffering
        if readable and writable:
            buf = io.BufferedRandom(raw, bs)
        elif writable:
            buf = io.BufferedWriter(raw, bs)
        else:
            buf = io.BufferedReader(raw, bs)
        if binary:
            return buf
        t = io.TextIOWrapper(buf, encoding or 'utf-8', errors, newline, line_buffering=(buffering == 1))
        t.mode = mode
        return t


def apply_op(files, dirs, e, partial=None):
    """Apply one logged operation to a plain image (files: path -> bytes, dirs: set)."""
    k = e[0]
    if k == 'create':
        files.setdefault(e[1], b'')
    elif k == 'write':
        _, path, pos, b = e
        if partial is not None:
            b = b[:partial]
        d = files.get(path, b'')
        if pos > len(d):
            d = d + b'\0' * (pos - len(d))
        files[path] = d[:pos] + b + d[pos + len(b):]
    elif k == 'truncate':
        d = files.get(e[1], b'')
        files[e[1]] = d[:e[2]] if e[2] <= len(d) else d + b'\0' * (e[2] - len(d))
    elif k == 'remove':
        files.pop(e[1], None)
    elif k == 'rename':
        a, b = e[1], e[2]
        if a in files:
            files[b] = files.pop(a)
        else:
            pre = a.rstrip('/') + '/'
            for q in list(files):
                if q.startswith(pre):
                    files[b + '/' + q[len(pre):]] = files.pop(q)
            for q in list(dirs):
                if q == a or q.startswith(pre):
                    dirs.discard(q)
                    dirs.add(b + q[len(a):])
    elif k == 'link':
        files[e[2]] = files[e[1]]
    elif k == 'mkdir':
        dirs.add(e[1])
    elif k == 'rmdir':
        dirs.discard(e[1])
    # fsync / mark: no effect on the image


def image(log, upto, dirs=('/', '/tmp')):
    """Plain image after the first `upto` logged operations."""
    files = {}
    ds = set(dirs)
    for e in log[:upto]:
        apply_op(files, ds, e)
    return files, ds


class VRaw(io.RawIOBase):
    """Raw (OS-level) file object over a VFS node; concrete data only."""

    def __init__(self, fs, path, node, readable, writable, append=False):
        self.fs = fs
        self.name = path
        self.node = node
        self._r = readable
        self._w = writable
        self._append = append
        self._pos = len(node.data) if append else 0
        self._fd = fs.nextfd
        fs.nextfd += 1
        fs.fds[self._fd] = self
        self.mode = 'rb+' if (readable and writable) else ('wb' if writable else 'rb')

    def readable(self):
        return self._r

    def writable(self):
        return self._w

    def seekable(self):
        return True

    def fileno(self):
        return self._fd

    def isatty(self):
        return False

    def tell(self):
        return self._pos

    def seek(self, off, whence=0):
        if whence == 0:
            self._pos = off
        elif whence == 1:
            self._pos += off
        else:
            self._pos = len(self.node.data) + off
        if self._pos < 0:
            self._pos = 0
            raise OSError(errno.EINVAL, 'negative seek')
        return self._pos

    def readinto(self, b):
        self.fs._yield('read', self.name)
        data = self.node.data
        n = max(0, min(len(b), len(data) - self._pos))
        b[:n] = data[self._pos:self._pos + n]
        self._pos += n
        return n

    def write(self, b):
        if not self._w:
            raise io.UnsupportedOperation('write')
        b = bytes(b)
        self.fs._yield('write', self.name)
        if self._append:
            self._pos = len(self.node.data)
        r = self.fs._mutate('write', self.name, self._pos, b)
        if r is not None:
            partial = api.realize(r[1])
            b = b[:max(0, min(partial, len(b)))]
        data = self.node.data
        if self._pos > len(data):
            data = data + b'\0' * (self._pos - len(data))
        self.node.data = data[:self._pos] + b + data[self._pos + len(b):]
        self.fs._log('write', self.name, self._pos, b)
        self._pos += len(b)
        return len(b)

    def truncate(self, size=None):
        if size is None:
            size = self._pos
        self.fs._yield('truncate', self.name)
        self.fs._mutate('truncate', self.name, size)
        data = self.node.data
        if size <= len(data):
            self.node.data = data[:size]
        else:
            self.node.data = data + b'\0' * (size - len(data))
        self.fs._log('truncate', self.name, size)
        return size

    def close(self):
        if not self.closed:
            self.fs.fds.pop(self._fd, None)
        super().close()


class PyFile:
    """Unbuffered pure-Python file; content may be symbolic bytes, length may be a symbolic int."""

    def __init__(self, fs, path, node, readable, writable, append=False):
        self.fs = fs
        self.name = path
        self.node = node
        self._r = readable
        self._w = writable
        self._append = append
        self.pos = 0
        self.closed = False
        self._fd = fs.nextfd
        fs.nextfd += 1
        fs.fds[self._fd] = self
        self.mode = 'rb+' if (readable and writable) else ('wb' if writable else 'rb')

    def __enter__(self):
        return self

    def __exit__(self, *a):
        self.close()

    def _size(self):
        n = self.node
        return len(n.data) if n.symsize is None else n.symsize

    def _concretise(self):
        """A write is about to hit a file of symbolic length: fix the length (the solver
        explores the other lengths on other paths)."""
        n = self.node
        if n.symsize is not None:
            k = api.realize(n.symsize)
            n.data = n.data[:k]
            n.symsize = None

    def readable(self):
        return self._r

    def writable(self):
        return self._w

    def seekable(self):
        return True

    def fileno(self):
        return self._fd

    def tell(self):
        return self.pos

    def seek(self, off, whence=0):
        if whence == 0:
            self.pos = off
        elif whence == 1:
            self.pos = self.pos + off
        else:
            self.pos = self._size() + off
        return self.pos

    def read(self, n=-1):
        node = self.node
        self.fs._yield('read', self.name)
        if node.symsize is None:
            data = node.data
            if n is None or n < 0:
                r = data[self.pos:]
            else:
                r = data[self.pos:self.pos + n]
            self.pos = self.pos + len(r)
            return r
        # symbolic length over concrete content: decide by forking where EOF falls
        size = node.symsize
        pos = api.realize(self.pos)
        full = node.data
        if n is None or n < 0:
            end = api.realize(size)
        else:
            n = api.realize(n)
            if api.decide(lambda: pos + n <= size):
                end = pos + n
            elif api.decide(lambda: pos >= size):
                end = pos
            else:
                end = api.realize(size)
        r = full[pos:end] if end > pos else b''
        self.pos = pos + len(r)
        return r

    def readinto(self, b):
        d = self.read(len(b))
        b[:len(d)] = d
        return len(d)

    def readline(self, limit=-1):
        out = b''
        while limit < 0 or len(out) < limit:
            c = self.read(1)
            if not c:
                break
            out = out + c
            if c == b'\n':
                break
        return out

    def write(self, b):
        if not self._w:
            raise io.UnsupportedOperation('write')
        self.fs._yield('write', self.name)
        self._concretise()
        node = self.node
        if self._append:
            self.pos = len(node.data)
        r = self.fs._mutate('write', self.name, self.pos, b)
        if r is not None:
            partial = api.realize(r[1])
            b = b[:max(0, min(partial, len(b)))]
        data = node.data
        pos = self.pos
        if pos > len(data):
            data = data + b'\0' * (pos - len(data))
        node.data = data[:pos] + b + data[pos + len(b):]
        self.fs._log('write', self.name, pos, b)
        self.pos = pos + len(b)
        return len(b)

    def truncate(self, size=None):
        if size is None:
            size = self.pos
        self.fs._yield('truncate', self.name)
        node = self.node
        if node.symsize is not None:
            if api.decide(lambda: size <= node.symsize):
                size = api.realize(size)
                node.data = node.data[:size]
                node.symsize = None
            else:
                self._concretise()
        self.fs._mutate('truncate', self.name, size)
        data = node.data
        if size <= len(data):
            node.data = data[:size]
        else:
            node.data = data + b'\0' * (size - len(data))
        self.fs._log('truncate', self.name, size)
        return size

    def flush(self):
        pass

    def close(self):
        if not self.closed:
            self.fs.fds.pop(self._fd, None)
        self.closed = True

    def __iter__(self):
        raise NotImplementedError


class _Path:
    """os.path look-alike: string functions are the real ones, file-system queries hit the VFS."""

    def __init__(self, fs):
        self.fs = fs

    def exists(self, p):
        return self.fs.exists(p)

    lexists = exists

    def isfile(self, p):
        return self.fs.norm(p) in self.fs.files

    def isdir(self, p):
        return self.fs.norm(p) in self.fs.dirs

    def islink(self, p):
        return False

    def getsize(self, p):
        n = self.fs.files.get(self.fs.norm(p))
        if n is None:
            raise FileNotFoundError(errno.ENOENT, 'no such file', p)
        return len(n.data) if n.symsize is None else n.symsize

    def getmtime(self, p):
        n = self.fs.files.get(self.fs.norm(p))
        if n is None:
            raise FileNotFoundError(errno.ENOENT, 'no such file', p)
        return n.mtime

    def abspath(self, p):
        return self.fs.norm(p)

    realpath = abspath

    def __getattr__(self, name):
        return getattr(posixpath, name)


class _StatResult:
    def __init__(self, mode, size, mtime=0):
        self.st_mode = mode
        self.st_size = size
        self.st_mtime = mtime
        self.st_nlink = 1
        self.st_dev = 1
        self.st_ino = 1


class OS:
    """`os` module look-alike bound to a VFS."""

    def __init__(self, fs):
        self.fs = fs
        self.path = _Path(fs)
        self.sep = '/'
        self.environ = _os.environ
        self.error = OSError
        self.name = 'posix'
        self.curdir = '.'
        self.pardir = '..'
        self.linesep = '\n'
        self.O_RDONLY = _os.O_RDONLY

    def __getattr__(self, name):
        if name in ('getpid', 'fspath', 'urandom', 'getcwd', 'strerror', 'fsencode', 'fsdecode', 'devnull',
                    'SEEK_SET', 'SEEK_CUR', 'SEEK_END', 'PathLike', 'altsep', 'extsep', 'pathsep', 'W_OK', 'R_OK',
                    'X_OK', 'F_OK', 'umask'):
            return getattr(_os, name)
        raise AttributeError('zverif VFS does not model os.%s' % name)

    def _file(self, p):
        p = self.fs.norm(p)
        if p not in self.fs.files:
            if p in self.fs.dirs:
                raise IsADirectoryError(errno.EISDIR, 'is a directory', p)
            raise FileNotFoundError(errno.ENOENT, 'No such file or directory', p)
        return p

    def remove(self, p):
        p = self._file(p)
        self.fs._yield('remove', p)
        self.fs._mutate('remove', p)
        del self.fs.files[p]
        self.fs._log('remove', p)

    unlink = remove

    def rename(self, a, b):
        fs = self.fs
        a = fs.norm(a)
        b = fs.norm(b)
        fs._yield('rename', a)
        if a in fs.files:
            if b in fs.dirs:
                raise IsADirectoryError(errno.EISDIR, 'is a directory', b)
            if posixpath.dirname(b) not in fs.dirs:
                raise FileNotFoundError(errno.ENOENT, 'no such directory', b)
            fs._mutate('rename', a, b)
            fs.files[b] = fs.files.pop(a)
            fs._log('rename', a, b)
        elif a in fs.dirs:
            if b in fs.files:
                raise NotADirectoryError(errno.ENOTDIR, 'not a directory', b)
            if b in fs.dirs and fs.listdir(b):
                raise OSError(errno.ENOTEMPTY, 'directory not empty', b)
            fs._mutate('rename', a, b)
            pre = a.rstrip('/') + '/'
            for q in list(fs.files):
                if q.startswith(pre):
                    fs.files[b + '/' + q[len(pre):]] = fs.files.pop(q)
            for q in list(fs.dirs):
                if q == a or q.startswith(pre):
                    fs.dirs.discard(q)
                    fs.dirs.add(b + q[len(a):])
            fs._log('rename', a, b)
        else:
            raise FileNotFoundError(errno.ENOENT, 'No such file or directory', a)

    replace = rename

    def link(self, a, b):
        fs = self.fs
        a = self._file(a)
        b = fs.norm(b)
        if fs.exists(b):
            raise FileExistsError(errno.EEXIST, 'exists', b)
        fs._mutate('link', a, b)
        fs.files[b] = fs.files[a]          # hard link: same node
        fs._log('link', a, b)

    def mkdir(self, p, mode=0o777):
        fs = self.fs
        p = fs.norm(p)
        if fs.exists(p):
            raise FileExistsError(errno.EEXIST, 'exists', p)
        if posixpath.dirname(p) not in fs.dirs:
            raise FileNotFoundError(errno.ENOENT, 'no such directory', p)
        fs._mutate('mkdir', p)
        fs.dirs.add(p)
        fs._log('mkdir', p)

    def makedirs(self, p, mode=0o777, exist_ok=False):
        fs = self.fs
        p = fs.norm(p)
        if p in fs.dirs:
            if exist_ok:
                return
            raise FileExistsError(errno.EEXIST, 'exists', p)
        parent = posixpath.dirname(p)
        if parent not in fs.dirs:
            self.makedirs(parent, mode, True)
        self.mkdir(p, mode)

    def rmdir(self, p):
        fs = self.fs
        p = fs.norm(p)
        if p not in fs.dirs:
            raise FileNotFoundError(errno.ENOENT, 'no such directory', p)
        if fs.listdir(p):
            raise OSError(errno.ENOTEMPTY, 'Directory not empty', p)
        fs._mutate('rmdir', p)
        fs.dirs.discard(p)
        fs._log('rmdir', p)

    def listdir(self, p='.'):
        return self.fs.listdir(p)

    def walk(self, top, topdown=True):
        fs = self.fs
        top = fs.norm(top)
        if top not in fs.dirs:
            return
        names = fs.listdir(top)
        dirs = [n for n in names if posixpath.join(top, n) in fs.dirs]
        files = [n for n in names if posixpath.join(top, n) in fs.files]
        if topdown:
            yield top, dirs, files
        for d in dirs:
            for x in self.walk(posixpath.join(top, d), topdown):
                yield x
        if not topdown:
            yield top, dirs, files

    def stat(self, p):
        fs = self.fs
        q = fs.norm(p)
        if q in fs.files:
            n = fs.files[q]
            return _StatResult(_stat.S_IFREG | n.mode, len(n.data) if n.symsize is None else n.symsize, n.mtime)
        if q in fs.dirs:
            return _StatResult(_stat.S_IFDIR | 0o700, 0)
        raise FileNotFoundError(errno.ENOENT, 'No such file or directory', p)

    lstat = stat

    def chmod(self, p, mode):
        q = self.fs.norm(p)
        if q in self.fs.files:
            self.fs.files[q].mode = mode & 0o7777
        elif q not in self.fs.dirs:
            raise FileNotFoundError(errno.ENOENT, 'No such file or directory', p)

    def utime(self, p, times=None):
        self._file(p)

    def access(self, p, mode):
        return self.fs.exists(p)

    def fsync(self, fd):
        f = self.fs.fds.get(fd)
        name = f.name if f is not None else None
        self.fs._yield('fsync', name)
        self.fs._mutate('fsync', name)
        self.fs._log('fsync', name)

    def close(self, fd):
        f = self.fs.fds.pop(fd, None)
        if f is not None and not isinstance(f, str):
            f.close()

    def fdopen(self, fd, mode='r', buffering=-1):
        name = self.fs.fds.pop(fd)
        return self.fs.open(name, mode if '+' in mode or mode[0] != 'w' else 'r+' + mode[1:], buffering)

    def open(self, path, flags, mode=0o777):
        raise NotImplementedError('os.open')

    def getsize(self, p):
        return self.path.getsize(p)


class Shutil:
    def __init__(self, fs, os_):
        self.fs = fs
        self.os = os_

    def rmtree(self, p, ignore_errors=False, onerror=None):
        fs = self.fs
        p = fs.norm(p)
        if p not in fs.dirs:
            if ignore_errors:
                return
            raise FileNotFoundError(errno.ENOENT, 'no such directory', p)
        pre = p.rstrip('/') + '/'
        for q in sorted(fs.files):
            if q.startswith(pre):
                self.os.remove(q)
        for q in sorted(fs.dirs, key=len, reverse=True):
            if q == p or q.startswith(pre):
                self.os.rmdir(q)

    def copyfile(self, a, b):
        with self.fs.open(a, 'rb') as f:
            data = f.read()
        with self.fs.open(b, 'wb') as g:
            g.write(data)
        return b

    copy = copyfile

    def copyfileobj(self, fsrc, fdst, length=64 * 1024):
        while 1:
            buf = fsrc.read(length)
            if not buf:
                break
            fdst.write(buf)

    def move(self, a, b):
        self.os.rename(a, b)


class Tempfile:
    def __init__(self, fs, os_):
        self.fs = fs
        self.os = os_
        self.tempdir = '/tmp'

    def _name(self, suffix, prefix, dir):
        self.fs.ntemp += 1
        return posixpath.join(self.fs.norm(dir or '/tmp'), '%s%06d%s' % (prefix or 'tmp', self.fs.ntemp, suffix or ''))

    def gettempdir(self):
        return '/tmp'

    def TemporaryFile(self, mode='w+b', buffering=-1, suffix=None, prefix=None, dir=None, **kw):
        # anonymous: not part of the namespace, not logged (process-private scratch)
        name = self._name(suffix, prefix, dir)
        node = Node()
        fs = self.fs
        if fs.pure:
            return PyFile(_Scratch(fs), name, node, True, True)
        return io.BufferedRandom(VRaw(_Scratch(fs), name, node, True, True))

    def NamedTemporaryFile(self, mode='w+b', buffering=-1, suffix=None, prefix=None, dir=None, delete=True, **kw):
        name = self._name(suffix, prefix, dir)
        f = self.fs.open(name, mode, buffering)
        return f

    def mkstemp(self, suffix=None, prefix=None, dir=None, text=False):
        name = self._name(suffix, prefix, dir)
        self.fs.open(name, 'wb').close()
        fd = self.fs.nextfd
        self.fs.nextfd += 1
        self.fs.fds[fd] = name
        return fd, name

    def mkdtemp(self, suffix=None, prefix=None, dir=None):
        name = self._name(suffix, prefix, dir)
        self.os.mkdir(name)
        return name


class _Scratch:
    """File-system facade for anonymous temporary files: no log, no faults, but yields."""

    def __init__(self, fs):
        self._fs = fs
        self.fds = fs.fds
        self.fail_errno = fs.fail_errno

    @property
    def nextfd(self):
        return self._fs.nextfd

    @nextfd.setter
    def nextfd(self, v):
        self._fs.nextfd = v

    def _yield(self, kind, path):
        self._fs._yield(kind, path)

    def _mutate(self, *a):
        return None

    def _log(self, *a):
        pass


class LockError(Exception):
    pass


def make_lockfile(fs):
    import zc.lockfile

    class LockFile:
        def __init__(self, path, content_template='{pid}'):
            p = fs.norm(path)
            node = fs.files.get(p)
            if node is not None and node.locked:
                raise zc.lockfile.LockError("Couldn't lock %r" % path)
            if node is None:
                node = fs.put(p, b'')
            node.locked = True
            node.data = b' 4242\n'
            self._node = node
            self._path = p

        def close(self):
            if self._node is not None:
                self._node.locked = False
                self._node = None
    return LockFile


_MODULES_OS = ['ZODB.FileStorage.FileStorage', 'ZODB.FileStorage.fspack', 'ZODB.FileStorage.format', 'ZODB.fsIndex',
               'ZODB.blob', 'ZODB.Connection', 'ZODB.utils', 'ZODB.fsrecover', 'ZODB.scripts.repozo',
               'ZODB.DemoStorage', 'ZODB.fstools', 'ZODB.DB']


def install(fs):
    """Point the ZODB modules at `fs` by rebinding open/os/shutil/tempfile/LockFile/fsync in
    their namespaces (the harness's own process only; nothing in /repo changes)."""
    import importlib
    import sys
    os_ = OS(fs)
    sh = Shutil(fs, os_)
    tf = Tempfile(fs, os_)
    fs.os = os_
    fs.shutil = sh
    fs.tempfile = tf
    for name in _MODULES_OS:
        try:
            importlib.import_module(name)
        except Exception:
            continue
        m = sys.modules[name]
        d = m.__dict__
        d['open'] = fs.open
        if 'os' in d:
            d['os'] = os_
        if 'shutil' in d:
            d['shutil'] = sh
        if 'tempfile' in d:
            d['tempfile'] = tf
        if 'LockFile' in d:
            d['LockFile'] = make_lockfile(fs)
        if 'fsync' in d:
            d['fsync'] = os_.fsync
    return fs
