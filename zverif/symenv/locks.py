"""Scheduler-controlled locks and the sequentialising scheduler (DESIGN.md 2.2, 3.4).

`ZODB.utils.Lock/RLock/Condition` (and the copies other modules imported) are rebound to
bookkeeping objects that know the logical thread that owns them.  At every lock operation -
and at every file-system call, through `vfs.hook` - the scheduler is offered a *yield point*.
A symbolic integer per pending secondary operation decides at which yield point that
operation runs, to completion, on behalf of another logical thread.  If the injected
operation needs a lock that is held by somebody else (or waits on a condition that cannot
become true), that schedule cannot be completed atomically: `Blocked` is raised and the
harness abandons the path (counted).  The stubs are as strict as `threading`'s.
"""
from zverif import api


class Blocked(Exception):
    """The running logical thread would have to wait: schedule not completable atomically."""


class Sched:
    """cur: logical thread id (0 = primary).  pending: list of (at, thread_id, callable);
    `at` may be symbolic.  Secondary operations are injected in list order."""

    def __init__(self):
        self.cur = 0
        self.n = 0                # yield points seen by the primary so far
        self.pending = []
        self.busy = True          # True: no injection (set-up, or inside an injected op)
        self.trace = []           # (point index, kind, name) where something was injected
        self.ran = []
        self.npoints = 0
        self.record = None        # optional list collecting (kind, name) of every yield point
        self.dead = False
        self.failed = None        # exception that ended an injected operation (the primary's code may have swallowed it)
        self.susp = None          # a suspendable injected operation that has started and not finished yet

    def run_injected(self):
        """Primary -> suspended operation: let it run until it finishes or has to wait again."""
        su = self.susp
        if su is None:
            return
        was_busy = self.busy
        self.busy = True
        self.cur = su.tid
        su.go_inj.release()
        su.go_pri.acquire()
        self.cur = 0
        self.busy = was_busy
        if su.done:
            self.susp = None
            if su.exc is not None:
                self.dead = True
                self.busy = True
                self.failed = su.exc
                raise su.exc
            self.ran.append(su.opname)

    def finish_suspended(self):
        """After the primary is through: a still suspended operation runs to its end (everything it waited for is free).
        Returns False if it cannot (it waits for something nobody will release)."""
        guard = 0
        while self.susp is not None:
            guard += 1
            if guard > 50:
                return False
            self.run_injected()
        return True

    def add(self, at, fn, tid=1, name=None, suspendable=False, pause_at=None, resume_at=None):
        """suspendable=True: the operation runs in a helper thread under strict hand-over (exactly one of the two threads
        runs at any time).  Where it would have to wait for a lock or a condition it is SUSPENDED instead of abandoning
        the path; the primary goes on and hands control back when it releases what the operation waits for.  This
        covers schedules in which both threads are in the middle of an operation."""
        if suspendable:
            fn = _Susp(self, tid, fn)
            # pause_at (a CONCRETE int, decided by the harness in the primary thread): the operation also stops of its own
            # accord at its pause_at-th own yield point and goes on at the primary's yield point resume_at (symbolic)
            fn.pause_at = pause_at
            fn.resume_at = resume_at
        self.pending.append((at, tid, fn, name or getattr(fn, '__name__', 'op')))

    def point(self, kind, name=None):
        if self.busy:
            su = self.susp
            if su is not None and su.pause_at is not None and not su.paused_once:
                import threading
                if threading.current_thread() is su.thread:
                    # a yield point of the suspendable operation itself
                    k = su.n
                    su.n += 1
                    if k == su.pause_at:
                        su.paused_once = True
                        su.pause_where = (kind, name)
                        su.suspend(('pause', None))
            return
        i = self.n
        self.n += 1
        self.npoints = self.n
        if self.record is not None:
            self.record.append((kind, name))
        su = self.susp
        if su is not None and isinstance(su.waiting, tuple) and su.waiting[0] == 'pause':
            if api.decide(lambda: i == su.resume_at):
                self.trace.append((i, kind, name, 'resume ' + str(su.opname)))
                self.run_injected()
        while self.pending:
            at, tid, fn, opname = self.pending[0]
            if not api.decide(lambda: i == at):
                break
            self.pending.pop(0)
            self.trace.append((i, kind, name, opname))
            prev = self.cur
            self.cur = tid
            self.busy = True
            try:
                if isinstance(fn, _Susp):
                    self.cur = prev
                    self.busy = False
                    self.susp = fn
                    fn.opname = opname
                    fn.start()
                    self.run_injected()
                    if self.susp is None:
                        self.ran.append(opname)
                    return
                fn()
                self.ran.append(opname)
            except BaseException as ex:
                # the schedule is being abandoned (or the code under test failed): while the exception
                # unwinds through the primary's frames no further step may be injected
                self.cur = prev
                self.busy = True
                self.dead = True
                self.failed = ex
                raise
            self.cur = prev
            self.busy = False

    def start(self):
        self.busy = False
        self.n = 0

    def stop(self):
        self.busy = True
        if self.susp is not None:
            # never leave the helper thread hanging: it is woken up to give up at its suspension point
            su, self.susp = self.susp, None
            su.abandon = True
            su.go_inj.release()
            su.go_pri.acquire(timeout=5)
        f, self.failed = self.failed, None
        if f is not None:
            # An injected operation did not complete.  If the exception was passed on by the primary's code the harness
            # has seen it already (and this path ends there); if the primary's code SWALLOWED it (e.g. an `except
            # Exception` around the file operation that served as yield point) the schedule is incomplete all the same:
            if isinstance(f, Blocked):
                api.assume(False)             # it would have had to wait: not an atomic step at this point
            if isinstance(f, Exception):
                raise f                       # a failure of the injected operation itself must not get lost


class _Susp:
    def __init__(self, sched, tid, fn):
        import threading
        self.sched = sched
        self.tid = tid
        self.fn = fn
        self.opname = None
        self.go_inj = threading.Semaphore(0)
        self.go_pri = threading.Semaphore(0)
        self.done = False
        self.exc = None
        self.waiting = None       # the lock (or ('cond', condition) / ('pause', None)) the operation is suspended on
        self.pause_at = None
        self.resume_at = None
        self.paused_once = False
        self.pause_where = None
        self.n = 0                # own yield points seen so far
        self.abandon = False
        self.thread = None

    def start(self):
        import threading
        self.thread = threading.Thread(target=self._run, daemon=True, name='zverif-injected')
        self.thread.start()

    def _run(self):
        self.go_inj.acquire()
        try:
            if not self.abandon:
                self.fn()
        except BaseException as ex:
            self.exc = ex
        finally:
            self.done = True
            self.go_pri.release()

    def suspend(self, on):
        """Called in the helper thread: hand control to the primary until it hands it back."""
        self.waiting = on
        self.go_pri.release()
        self.go_inj.acquire()
        self.waiting = None
        if self.abandon:
            raise Blocked('suspended operation abandoned with the path')


def _me_suspendable():
    """The suspendable operation object if the calling real thread is its helper thread."""
    import threading
    su = SCHED.susp
    if su is not None and threading.current_thread() is su.thread:
        return su
    return None


SCHED = Sched()


def reset():
    global SCHED
    SCHED = Sched()
    return SCHED


class SLock:
    _kind = 'Lock'

    def __init__(self):
        self.owner = None
        self.count = 0

    def _pt(self, kind):
        SCHED.point(kind, self._kind)

    def _wait_for_free(self, me, reentrant):
        """The lock is held by another logical thread.  Suspend / switch if a suspendable operation is involved, else
        the schedule cannot be completed atomically (Blocked)."""
        while self.owner is not None and not (reentrant and self.owner == me):
            su = _me_suspendable()
            if su is not None:
                su.suspend(self)                       # injected operation waits: the primary goes on
                continue
            su = SCHED.susp
            if su is not None and me == 0 and self.owner == su.tid and su.waiting is not None:
                w = su.waiting[1] if isinstance(su.waiting, tuple) else su.waiting
                if w is not None and w.owner == 0:
                    raise Blocked('deadlock: primary wants %s held by the suspended operation, which waits for the primary' % self._kind)
                SCHED.run_injected()                   # let the holder go on until it releases or finishes
                continue
            raise Blocked('%s held by thread %r, wanted by %r' % (self._kind, self.owner, me))

    def _released(self):
        """After a release by the primary: a suspended operation that waits for this lock gets its turn."""
        su = SCHED.susp
        if su is None or SCHED.cur != 0 or _me_suspendable() is not None:
            return
        w = su.waiting
        if w is self or (isinstance(w, tuple) and w[1] is self and getattr(self, '_notified', False)):
            SCHED.run_injected()

    def acquire(self, blocking=True, timeout=-1):
        self._pt('acquire')
        me = SCHED.cur
        if self.owner is not None:
            if not blocking:
                return False
            self._wait_for_free(me, False)
        self.owner = me
        self.count = 1
        return True

    def release(self):
        if self.owner is None:
            raise RuntimeError('release unlocked lock')
        self.owner = None
        self.count = 0
        self._pt('release')
        self._released()

    def locked(self):
        return self.owner is not None

    def __enter__(self):
        self.acquire()
        return self

    def __exit__(self, *a):
        self.release()


class SRLock(SLock):
    _kind = 'RLock'

    def acquire(self, blocking=True, timeout=-1):
        self._pt('acquire')
        me = SCHED.cur
        if self.owner is not None and self.owner != me:
            if not blocking:
                return False
            self._wait_for_free(me, True)
        self.owner = me
        self.count += 1
        return True

    def release(self):
        if self.owner is None or self.owner != SCHED.cur:
            raise RuntimeError('cannot release un-acquired lock')
        self.count -= 1
        if self.count == 0:
            self.owner = None
            self._pt('release')
            self._released()

    def _is_owned(self):
        return self.owner == SCHED.cur


class SCondition(SRLock):
    _kind = 'Condition'

    def __init__(self, lock=None):
        SRLock.__init__(self)

    def wait(self, timeout=None):
        if not self._is_owned():
            raise RuntimeError('cannot wait on un-acquired lock')
        su = _me_suspendable()
        if su is not None:
            # a suspendable operation really waits: give the lock up, let the primary go on, come back after a notify
            me, count = self.owner, self.count
            self.owner, self.count = None, 0
            self._notified = False
            su.suspend(('cond', self))
            self._wait_for_free(me, True)
            self.owner, self.count = me, count
            return True
        # nobody else can run while we wait inside an atomic step: the predicate cannot change
        raise Blocked('Condition.wait by thread %r' % SCHED.cur)

    def wait_for(self, predicate, timeout=None):
        if not self._is_owned():
            raise RuntimeError('cannot wait on un-acquired lock')
        while not predicate():
            if _me_suspendable() is None:
                raise Blocked('Condition.wait_for by thread %r' % SCHED.cur)
            self.wait()
        return True

    def notify(self, n=1):
        if not self._is_owned():
            raise RuntimeError('cannot notify on un-acquired lock')
        self._notified = True

    def notify_all(self):
        self.notify()

    notifyAll = notify_all


_saved = None


def install(fs=None):
    """Rebind the lock classes in the ZODB modules; returns the fresh scheduler.  With `fs`, every
    file-system call of the VFS becomes a yield point too."""
    import ZODB.utils as U
    import ZODB.mvccadapter as M
    global _saved
    if _saved is None:
        _saved = (U.Lock, U.RLock, U.Condition, M.Lock)
    U.Lock = SLock
    U.RLock = SRLock
    U.Condition = SCondition
    M.Lock = SLock
    s = reset()
    if fs is not None:
        fs.hook = lambda kind, path: SCHED.point('io:' + kind, path)
    return s


def uninstall():
    import ZODB.utils as U
    import ZODB.mvccadapter as M
    if _saved is not None:
        U.Lock, U.RLock, U.Condition, M.Lock = _saved


def selftest(problems):
    """The stubs refuse exactly what threading's primitives refuse (single-thread observable part)."""
    import threading
    for real, stub in ((threading.Lock, SLock), (threading.RLock, SRLock)):
        obs = []
        for cls in (real, stub):
            L = cls()
            o = []
            o.append(L.acquire(False))
            o.append(L.acquire(False))
            L.release()
            if cls in (threading.RLock, SRLock):
                L.release()
            try:
                L.release()
                o.append('released-unheld')
            except RuntimeError:
                o.append('RuntimeError')
            obs.append(o)
        if obs[0] != obs[1]:
            problems.append('lock stub %s differs from threading: %r vs %r' % (stub.__name__, obs[0], obs[1]))
    c, sc = threading.Condition(), SCondition()
    for name, x in (('real', c), ('stub', sc)):
        try:
            x.wait(0)
            problems.append('Condition.wait without the lock accepted by ' + name)
        except RuntimeError:
            pass
        try:
            x.notify()
            problems.append('Condition.notify without the lock accepted by ' + name)
        except RuntimeError:
            pass


class line_points:
    """Context manager: every source line executed in the given code objects becomes a yield
    point of the scheduler (line-level preemption for selected functions).  Uses sys.monitoring
    tool id 5 with LOCAL line events, so nothing else is slowed down."""
    TOOL = 5

    def __init__(self, codes):
        self.codes = [c for c in codes if c is not None]
        self.ok = False

    def __enter__(self):
        import sys
        mon = sys.monitoring
        try:
            mon.use_tool_id(self.TOOL, 'zverif-lines')
        except ValueError:
            mon.free_tool_id(self.TOOL)
            mon.use_tool_id(self.TOOL, 'zverif-lines')

        def cb(code, line):
            SCHED.point('line', '%s:%d' % (code.co_qualname, line))
        mon.register_callback(self.TOOL, mon.events.LINE, cb)
        for c in self.codes:
            mon.set_local_events(self.TOOL, c, mon.events.LINE)
        self.ok = True
        return self

    def __exit__(self, *a):
        import sys
        mon = sys.monitoring
        for c in self.codes:
            mon.set_local_events(self.TOOL, c, 0)
        mon.register_callback(self.TOOL, mon.events.LINE, None)
        mon.free_tool_id(self.TOOL)
        return False
