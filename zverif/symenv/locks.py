"""Scheduler-controlled locks and the sequentialising scheduler (DESIGN.md 2.2, 3.4).

`ZODB.utils.Lock/RLock/Condition` (and the copies other modules imported) are rebound to
bookkeeping objects that know the logical thread that owns them.  At every lock operation -
and at every file-system call, through `vfs.hook` - the scheduler is offered a *yield point*.
A symbolic integer per pending secondary operation decides at which yield point that
operation runs, to completion, on behalf of another logical thread.  If the injected
operation needs a lock that is held by somebody else (or waits on a condition that cannot
become true), that schedule cannot be completed atomically: `Blocked` is raised and the
harness abandons the path (counted).  The stubs are as strict as `threading`'s.
"""
from zverif import api


class Blocked(Exception):
    """The running logical thread would have to wait: schedule not completable atomically."""


class Sched:
    """cur: logical thread id (0 = primary).  pending: list of (at, thread_id, callable);
    `at` may be symbolic.  Secondary operations are injected in list order."""

    def __init__(self):
        self.cur = 0
        self.n = 0                # yield points seen by the primary so far
        self.pending = []
        self.busy = True          # True: no injection (set-up, or inside an injected op)
        self.trace = []           # (point index, kind, name) where something was injected
        self.ran = []
        self.npoints = 0
        self.record = None        # optional list collecting (kind, name) of every yield point
        self.dead = False
        self.failed = None        # exception that ended an injected operation (the primary's code may have swallowed it)

    def add(self, at, fn, tid=1, name=None):
        self.pending.append((at, tid, fn, name or getattr(fn, '__name__', 'op')))

    def point(self, kind, name=None):
        if self.busy:
            return
        i = self.n
        self.n += 1
        self.npoints = self.n
        if self.record is not None:
            self.record.append((kind, name))
        while self.pending:
            at, tid, fn, opname = self.pending[0]
            if not api.decide(lambda: i == at):
                break
            self.pending.pop(0)
            self.trace.append((i, kind, name, opname))
            prev = self.cur
            self.cur = tid
            self.busy = True
            try:
                fn()
                self.ran.append(opname)
            except BaseException as ex:
                # the schedule is being abandoned (or the code under test failed): while the exception
                # unwinds through the primary's frames no further step may be injected
                self.cur = prev
                self.busy = True
                self.dead = True
                self.failed = ex
                raise
            self.cur = prev
            self.busy = False

    def start(self):
        self.busy = False
        self.n = 0

    def stop(self):
        self.busy = True
        f, self.failed = self.failed, None
        if f is not None:
            # An injected operation did not complete.  If the exception was passed on by the primary's code the harness
            # has seen it already (and this path ends there); if the primary's code SWALLOWED it (e.g. an `except
            # Exception` around the file operation that served as yield point) the schedule is incomplete all the same:
            if isinstance(f, Blocked):
                api.assume(False)             # it would have had to wait: not an atomic step at this point
            if isinstance(f, Exception):
                raise f                       # a failure of the injected operation itself must not get lost


SCHED = Sched()


def reset():
    global SCHED
    SCHED = Sched()
    return SCHED


class SLock:
    _kind = 'Lock'

    def __init__(self):
        self.owner = None
        self.count = 0

    def _pt(self, kind):
        SCHED.point(kind, self._kind)

    def acquire(self, blocking=True, timeout=-1):
        self._pt('acquire')
        me = SCHED.cur
        if self.owner is not None:
            if not blocking:
                return False
            raise Blocked('%s held by thread %r, wanted by %r' % (self._kind, self.owner, me))
        self.owner = me
        self.count = 1
        return True

    def release(self):
        if self.owner is None:
            raise RuntimeError('release unlocked lock')
        self.owner = None
        self.count = 0
        self._pt('release')

    def locked(self):
        return self.owner is not None

    def __enter__(self):
        self.acquire()
        return self

    def __exit__(self, *a):
        self.release()


class SRLock(SLock):
    _kind = 'RLock'

    def acquire(self, blocking=True, timeout=-1):
        self._pt('acquire')
        me = SCHED.cur
        if self.owner is not None and self.owner != me:
            if not blocking:
                return False
            raise Blocked('%s held by thread %r, wanted by %r' % (self._kind, self.owner, me))
        self.owner = me
        self.count += 1
        return True

    def release(self):
        if self.owner is None or self.owner != SCHED.cur:
            raise RuntimeError('cannot release un-acquired lock')
        self.count -= 1
        if self.count == 0:
            self.owner = None
            self._pt('release')

    def _is_owned(self):
        return self.owner == SCHED.cur


class SCondition(SRLock):
    _kind = 'Condition'

    def __init__(self, lock=None):
        SRLock.__init__(self)

    def wait(self, timeout=None):
        if not self._is_owned():
            raise RuntimeError('cannot wait on un-acquired lock')
        # nobody else can run while we wait inside an atomic step: the predicate cannot change
        raise Blocked('Condition.wait by thread %r' % SCHED.cur)

    def wait_for(self, predicate, timeout=None):
        if not self._is_owned():
            raise RuntimeError('cannot wait on un-acquired lock')
        if predicate():
            return True
        raise Blocked('Condition.wait_for by thread %r' % SCHED.cur)

    def notify(self, n=1):
        if not self._is_owned():
            raise RuntimeError('cannot notify on un-acquired lock')

    def notify_all(self):
        self.notify()

    notifyAll = notify_all


_saved = None


def install(fs=None):
    """Rebind the lock classes in the ZODB modules; returns the fresh scheduler.  With `fs`, every
    file-system call of the VFS becomes a yield point too."""
    import ZODB.utils as U
    import ZODB.mvccadapter as M
    global _saved
    if _saved is None:
        _saved = (U.Lock, U.RLock, U.Condition, M.Lock)
    U.Lock = SLock
    U.RLock = SRLock
    U.Condition = SCondition
    M.Lock = SLock
    s = reset()
    if fs is not None:
        fs.hook = lambda kind, path: SCHED.point('io:' + kind, path)
    return s


def uninstall():
    import ZODB.utils as U
    import ZODB.mvccadapter as M
    if _saved is not None:
        U.Lock, U.RLock, U.Condition, M.Lock = _saved


def selftest(problems):
    """The stubs refuse exactly what threading's primitives refuse (single-thread observable part)."""
    import threading
    for real, stub in ((threading.Lock, SLock), (threading.RLock, SRLock)):
        obs = []
        for cls in (real, stub):
            L = cls()
            o = []
            o.append(L.acquire(False))
            o.append(L.acquire(False))
            L.release()
            if cls in (threading.RLock, SRLock):
                L.release()
            try:
                L.release()
                o.append('released-unheld')
            except RuntimeError:
                o.append('RuntimeError')
            obs.append(o)
        if obs[0] != obs[1]:
            problems.append('lock stub %s differs from threading: %r vs %r' % (stub.__name__, obs[0], obs[1]))
    c, sc = threading.Condition(), SCondition()
    for name, x in (('real', c), ('stub', sc)):
        try:
            x.wait(0)
            problems.append('Condition.wait without the lock accepted by ' + name)
        except RuntimeError:
            pass
        try:
            x.notify()
            problems.append('Condition.notify without the lock accepted by ' + name)
        except RuntimeError:
            pass


class line_points:
    """Context manager: every source line executed in the given code objects becomes a yield
    point of the scheduler (line-level preemption for selected functions).  Uses sys.monitoring
    tool id 5 with LOCAL line events, so nothing else is slowed down."""
    TOOL = 5

    def __init__(self, codes):
        self.codes = [c for c in codes if c is not None]
        self.ok = False

    def __enter__(self):
        import sys
        mon = sys.monitoring
        try:
            mon.use_tool_id(self.TOOL, 'zverif-lines')
        except ValueError:
            mon.free_tool_id(self.TOOL)
            mon.use_tool_id(self.TOOL, 'zverif-lines')

        def cb(code, line):
            SCHED.point('line', '%s:%d' % (code.co_qualname, line))
        mon.register_callback(self.TOOL, mon.events.LINE, cb)
        for c in self.codes:
            mon.set_local_events(self.TOOL, c, mon.events.LINE)
        self.ok = True
        return self

    def __exit__(self, *a):
        import sys
        mon = sys.monitoring
        for c in self.codes:
            mon.set_local_events(self.TOOL, c, 0)
        mon.register_callback(self.TOOL, mon.events.LINE, None)
        mon.free_tool_id(self.TOOL)
        return False
