"""Symbolic-friendly big-endian codec.

* `struct.unpack` - CrossHair's built-in model keeps integers symbolic but concretises
  `Ns` fields; its registry entry is replaced by a fully symbolic big-endian decoder
  (only used when the buffer is symbolic and the format is big-endian; otherwise the
  real struct.unpack runs).
* `ZODB.utils.p64/u64` - bound methods of `struct.Struct('>Q')`, which concretise;
  routed to the module-level struct functions, which CrossHair models symbolically.

Validated against the real `struct` on concrete inputs by symenv.selftest.
"""
import re
import struct as _struct

_real_unpack = _struct.unpack
_real_pack = _struct.pack
_tok = re.compile(r'(\d*)([sQqHhIiBbc])')
_size = {'Q': 8, 'q': 8, 'H': 2, 'h': 2, 'I': 4, 'i': 4, 'B': 1, 'b': 1}
_signed = {'q', 'h', 'i', 'b'}


def decode_be(fmt, data):
    """Pure-Python big-endian struct.unpack for the formats ZODB uses."""
    out = []
    pos = 0
    for n, c in _tok.findall(fmt[1:]):
        if c == 's':
            k = int(n or 1)
            out.append(data[pos:pos + k])
            pos += k
        elif c == 'c':
            for _ in range(int(n or 1)):
                out.append(data[pos:pos + 1])
                pos += 1
        else:
            for _ in range(int(n or 1)):
                k = _size[c]
                v = 0
                for i in range(k):
                    v = v * 256 + data[pos + i]
                if c in _signed and v >= 1 << (8 * k - 1):
                    v -= 1 << (8 * k)
                pos += k
                out.append(v)
    if pos != len(data):
        raise _struct.error('unpack requires a buffer of %d bytes' % pos)
    return tuple(out)


def _is_sym(x):
    from crosshair.tracers import NoTracing
    from crosshair.util import CrossHairValue
    with NoTracing():
        return isinstance(x, CrossHairValue)


_ch_unpack = None      # CrossHair's own model of struct.unpack (used for what we do not handle)


def sym_unpack(fmt, data):
    if not _is_sym(data):
        return _real_unpack(fmt, data)
    if not isinstance(fmt, str) or not fmt.startswith('>'):
        return (_ch_unpack or _real_unpack)(fmt, data)
    expect = _struct.calcsize(fmt)
    if len(data) != expect:
        raise _struct.error('unpack requires a buffer of %d bytes' % expect)
    return decode_be(fmt, data)


_ch_pack = None


def encode_be(fmt, args):
    """Pure-Python big-endian struct.pack for the formats ZODB uses."""
    out = b''
    i = 0
    for n, c in _tok.findall(fmt[1:]):
        if c == 's':
            k = int(n or 1)
            v = args[i]
            i += 1
            if not isinstance(v, (bytes, bytearray)):
                raise _struct.error("argument for 's' must be a bytes object")
            if len(v) >= k:
                out = out + v[:k]
            else:
                out = out + v + b'\0' * (k - len(v))
        elif c == 'c':
            for _ in range(int(n or 1)):
                v = args[i]
                i += 1
                if not isinstance(v, (bytes, bytearray)) or len(v) != 1:
                    raise _struct.error('char format requires a bytes object of length 1')
                out = out + v
        else:
            for _ in range(int(n or 1)):
                v = args[i]
                i += 1
                k = _size[c]
                if c in _signed:
                    if not (-(1 << (8 * k - 1)) <= v < (1 << (8 * k - 1))):
                        raise _struct.error('argument out of range')
                    out = out + v.to_bytes(k, 'big', signed=True)
                else:
                    if not (0 <= v < (1 << (8 * k))):
                        raise _struct.error('argument out of range')
                    out = out + v.to_bytes(k, 'big')
    if i != len(args):
        raise _struct.error('pack expected %d items for packing (got %d)' % (i, len(args)))
    return out


def sym_pack(fmt, *args):
    if not isinstance(fmt, str) or not fmt.startswith('>') or not any(_is_sym(a) for a in args):
        if any(_is_sym(a) for a in args) and _ch_pack is not None:
            return _ch_pack(fmt, *args)
        return _real_pack(fmt, *args)
    return encode_be(fmt, args)


def _p64(v):
    try:
        return _struct.pack('>Q', v)
    except _struct.error as e:
        raise ValueError(*(e.args + (v,)))


def _u64(v):
    try:
        return _struct.unpack('>Q', v)[0]
    except _struct.error as e:
        raise ValueError(*(e.args + (v,)))


_installed = False


def install():
    """Register the codec with CrossHair (no effect on concrete execution)."""
    global _installed
    if _installed:
        return
    _installed = True
    try:
        import crosshair.core as cc
        import crosshair.core_and_libs  # noqa
        from crosshair import register_patch
    except Exception:
        return
    import ZODB.utils as U
    global _ch_unpack
    _ch_unpack = cc._PATCH_REGISTRATIONS.get(_struct.unpack)
    cc._PATCH_REGISTRATIONS[_struct.unpack] = sym_unpack
    global _ch_pack
    _ch_pack = cc._PATCH_REGISTRATIONS.get(_struct.pack)
    cc._PATCH_REGISTRATIONS[_struct.pack] = sym_pack
    register_patch(U.p64, _p64)
    register_patch(U.u64, _u64)
