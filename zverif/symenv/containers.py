"""Hash-free containers: drop-in replacements for dicts whose keys must stay symbolic."""


class AssocDict:
    """dict stand-in without hashing (FileStorage._newIndexes is the documented hook for using
    "something other than builtin dict" as the transaction index): symbolic oids stay symbolic."""

    def __init__(self):
        self.kv = []

    def _find(self, k):
        for i, (k2, _) in enumerate(self.kv):
            if k2 == k:
                return i
        return -1

    def get(self, k, default=None):
        i = self._find(k)
        return default if i < 0 else self.kv[i][1]

    def __getitem__(self, k):
        i = self._find(k)
        if i < 0:
            raise KeyError(k)
        return self.kv[i][1]

    def __setitem__(self, k, v):
        i = self._find(k)
        if i < 0:
            self.kv.append((k, v))
        else:
            self.kv[i] = (k, v)

    def __contains__(self, k):
        return self._find(k) >= 0

    def __len__(self):
        return len(self.kv)

    def __iter__(self):
        return iter([k for k, _ in self.kv])

    def keys(self):
        return [k for k, _ in self.kv]

    def items(self):
        return list(self.kv)

    def clear(self):
        self.kv = []

    def update(self, other):
        for k, v in other.items():
            self[k] = v

    def values(self):
        return [v for _, v in self.kv]

    def __delitem__(self, k):
        i = self._find(k)
        if i < 0:
            raise KeyError(k)
        del self.kv[i]

    def pop(self, k, *default):
        i = self._find(k)
        if i < 0:
            if default:
                return default[0]
            raise KeyError(k)
        return self.kv.pop(i)[1]
