"""The C04 query battery: compares a real storage with the RevStore model.

Each q_* function compares ONE query (arguments may be symbolic).  `full_battery` runs every
query over the concrete arguments a history suggests (each oid/tid and its neighbours) and is
what other properties mean by "all C04 answers"."""
import base64

from zverif.api import check, fail
from zverif.model.revstore import NoKey


def _poskey():
    from ZODB.POSException import POSKeyError
    return POSKeyError


def _call(f, *a):
    """('ok', value) | ('nokey', None); other exceptions propagate (they are violations or harness errors)."""
    try:
        return 'ok', f(*a)
    except _poskey():
        return 'nokey', None


def _model(f, *a):
    try:
        return 'ok', f(*a)
    except NoKey:
        return 'nokey', None


def q_load(s, m, oid):
    from ZODB.utils import load_current
    got = _call(load_current, s, oid)
    want = _model(m.load, oid)
    check(got == want, 'load(oid) differs from history', oid, got, want)


def q_load_serial(s, m, oid, serial):
    got = _call(s.loadSerial, oid, serial)
    want = _model(m.load_serial, oid, serial)
    check(got == want, 'loadSerial(oid, serial) differs from history', oid, serial, got, want)


def q_load_before(s, m, oid, tid):
    got = _call(s.loadBefore, oid, tid)
    want = _model(m.load_before, oid, tid)
    check(got == want, 'loadBefore(oid, tid) differs from history', oid, tid, got, want)


def q_get_tid(s, m, oid):
    got = _call(s.getTid, oid)
    want = _model(m.get_tid, oid)
    check(got == want, 'getTid differs from history', oid, got, want)


def q_last(s, m):
    check(s.lastTransaction() == m.last_tid(), 'lastTransaction differs from history', s.lastTransaction(), m.last_tid())


def _strip_hist(d):
    d = dict(d)
    d.pop('time', None)
    return d


_HKEYS = ('tid', 'size', 'user_name', 'description')


def q_history(s, m, oid, size):
    got = _call(s.history, oid, size)
    want = _model(m.history, oid, size)
    if hasattr(s, '_file'):          # FileStorage merges the extension dict into each entry
        if got[0] == 'ok':
            got = ('ok', [_strip_hist(d) for d in got[1]])
        if want[0] == 'ok':          # (the computed 'time' wins over an extension key of that name and is not compared)
            want = ('ok', [_strip_hist(d) for d in want[1]])
    else:                            # other storages: compare the common keys
        if got[0] == 'ok':
            got = ('ok', [dict((k, d.get(k)) for k in _HKEYS) for d in got[1]])
        if want[0] == 'ok':
            want = ('ok', [dict((k, d.get(k)) for k in _HKEYS) for d in want[1]])
    check(got == want, 'history(oid, size) differs', oid, size, got, want)


def q_undo_log(s, m, first, last):
    got = s.undoLog(first, last)
    got = [dict((k, v) for k, v in d.items() if k not in ('time', 'size')) for d in got]
    for d in got:
        d['id'] = base64.decodebytes(d['id'] + b'\n')
    want = [dict((k, v) for k, v in d.items() if k not in ('time', 'size')) for d in m.undo_log(first, last)]
    check(got == want, 'undoLog(first, last) differs', first, last, got, want)


def txn_view(t):
    """Comparable view of an iterated storage transaction record."""
    ext = t.extension if hasattr(t, 'extension') else {}
    recs = []
    for r in t:
        recs.append((r.oid, r.tid, r.data, getattr(r, 'data_txn', None)))
    return (t.tid, t.status, t.user, t.description, ext, recs)


def mtxn_view(t):
    return (t.tid, t.status, t.user, t.desc, t.ext, [(r.oid, t.tid, r.data, r.data_txn) for r in t.records])


def q_iterator(s, m, start=None, stop=None, data_txn=True, dedupe=False):
    it = s.iterator(start, stop)
    try:
        got = [txn_view(t) for t in it]
    finally:
        if hasattr(it, 'close'):
            it.close()
    want = [mtxn_view(t) for t in m.iterate(start, stop)]
    if dedupe:      # storages that keep one record per oid per transaction (mapping)
        want = [(t.tid, t.status, t.user, t.desc, t.ext, [(r.oid, t.tid, r.data, r.data_txn) for r in t.written()])
                for t in m.iterate(start, stop)]
    if not data_txn:
        got = [g[:5] + ([r[:3] for r in g[5]],) for g in got]
        want = [g[:5] + ([r[:3] for r in g[5]],) for g in want]
    check(got == want, 'iterator(start, stop) differs from history', start, stop, got, want)


def q_record_iternext(s, m):
    """Walk record_iternext from the start; must list every oid once with its current revision."""
    got = []
    nxt = None
    for _ in range(1000):
        oid, tid, data, nxt = s.record_iternext(nxt)
        got.append((oid, tid, data))
        if nxt is None:
            break
    want = []
    for o in m.oids():
        try:
            d, t = m.load(o)
            want.append((o, t, d))
        except NoKey:
            pass
    return got, want


def neighbours(b):
    n = int.from_bytes(b, 'big')
    out = []
    for d in (-1, 0, 1):
        if 0 <= n + d < 2 ** 64:
            out.append((n + d).to_bytes(8, 'big'))
    return out


def full_battery(s, m, iterator=True, undo_log=True, history=True, data_txn=True, extra_oids=()):
    """Every revision query over all concrete boundary arguments of the history."""
    oids = list(m.oids())
    for o in list(oids) + list(extra_oids):
        for o2 in neighbours(o):
            if o2 not in oids:
                oids.append(o2)
    tids = []
    for t in m.txns:
        for t2 in neighbours(t.tid):
            if t2 not in tids:
                tids.append(t2)
    tids.append(b'\0' * 8)
    tids.append(b'\xff' * 8)
    q_last(s, m)
    for o in oids:
        q_load(s, m, o)
        if hasattr(s, 'getTid'):
            q_get_tid(s, m, o)
        for t in tids:
            q_load_serial(s, m, o, t)
            q_load_before(s, m, o, t)
        if history and hasattr(s, 'history'):
            for size in (1, 2, 100):
                q_history(s, m, o, size)
    if iterator:
        q_iterator(s, m, data_txn=data_txn)
        for t in tids[:8]:
            q_iterator(s, m, t, None, data_txn=data_txn)
            q_iterator(s, m, None, t, data_txn=data_txn)
    if undo_log and hasattr(s, 'undoLog'):
        for first, last in ((0, -20), (1, -2), (0, 3), (2, 100)):
            q_undo_log(s, m, first, last)
