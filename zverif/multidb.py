"""Two databases joined into one multi-database ('one', 'two'), driven through the real DB / Connection
layer: fixture and model shared by the multi-database harnesses of C11, C14 and C15."""
from zverif import pobj
from zverif import templates as T
from zverif.api import check, fail


class Multi:
    def __init__(self, storage='mapping'):
        import transaction
        import ZODB
        self.transaction = transaction
        self.env = T.Env()
        if storage == 'file':
            s1, s2 = self.env.filestorage('/db/One.fs'), self.env.filestorage('/db/Two.fs')
        else:
            s1, s2 = self.env.mappingstorage(), self.env.mappingstorage()
        self.s = {'one': s1, 'two': s2}
        self.databases = {}
        self.db = {'one': ZODB.DB(s1, databases=self.databases, database_name='one'),
                   'two': ZODB.DB(s2, databases=self.databases, database_name='two')}
        self.tm = transaction.TransactionManager()
        self.open()

    def open(self, tm=None):
        if tm is not None:
            self.tm = tm
        self.c1 = self.db['one'].open(self.tm)
        self.c2 = self.c1.get_connection('two')
        self.c = {'one': self.c1, 'two': self.c2}

    def fresh_pair(self):
        tm = self.transaction.TransactionManager()
        a = self.db['one'].open(tm)
        return tm, a, a.get_connection('two')

    def close_all(self):
        try:
            self.tm.abort()
        except Exception:
            pass
        for d in self.db.values():
            try:
                d.close()
            except Exception:
                pass


class MultiWorld(Multi):
    """Program interpreter with a model: per database a dict name -> value of committed / working state."""

    def __init__(self, storage='mapping'):
        Multi.__init__(self, storage)
        for n in ('one', 'two'):
            self.c[n].root()['doc'] = pobj.PObj(v=0)
        self.tm.commit()
        self.committed = {'one': {'doc': 0}, 'two': {'doc': 0}}
        self.work = {'one': {'doc': 0}, 'two': {'doc': 0}}
        self.dirty = set()          # databases whose connection has uncommitted changes (is joined)
        self.k = 0
        self.nadd = 0
        self.xref = False           # committed: one['doc'].other is two['doc']
        self.xref_work = False

    def modify(self, n):
        self.k += 1
        self.c[n].root()['doc'].v = self.k
        self.work[n]['doc'] = self.k
        self.dirty.add(n)
        return 'modify:' + n

    def add(self, n):
        self.nadd += 1
        name = 'n%d' % self.nadd
        self.k += 1
        self.c[n].root()[name] = pobj.PObj(v=self.k)
        self.work[n][name] = self.k
        self.dirty.add(n)
        return 'add:%s:%s' % (n, name)

    def link(self):
        """An object of database one refers to an (existing, committed) object of database two."""
        self.c1.root()['doc'].other = self.c2.root()['doc']
        self.xref_work = True
        self.dirty.add('one')
        return 'link'

    def commit(self):
        self.tm.commit()
        self._boundary(True)
        return 'commit'

    def abort(self):
        self.tm.abort()
        self._boundary(False)
        return 'abort'

    def _boundary(self, ok):
        if ok:
            self.committed = {n: dict(d) for n, d in self.work.items()}
            self.xref = self.xref_work
        else:
            self.work = {n: dict(d) for n, d in self.committed.items()}
            self.xref_work = self.xref
        self.dirty = set()

    def close_reopen(self):
        """Close the primary connection.  Refused (ConnectionStateError) exactly if a connection of the group
        is joined to a transaction; otherwise the group goes back to the pool and is handed out again under
        another transaction manager, clean."""
        from ZODB.POSException import ConnectionStateError
        try:
            self.c1.close()
            closed = True
        except ConnectionStateError:
            closed = False
        check(closed == (not self.dirty), 'close of the primary connection accepted inside / refused outside a transaction',
              sorted(self.dirty))
        if not closed:
            # the refusal changes nothing: the program goes on inside the same transaction with the same connections
            return 'close_refused'
        self.open(self.transaction.TransactionManager())
        return 'close_reopen' if closed else 'close_refused'

    # -- checks -------------------------------------------------------------
    def _view(self, c1, c2, want, xref, where, what):
        for n, c in (('one', c1), ('two', c2)):
            r = c.root()
            got = dict((k, r[k].v) for k in r.keys())
            check(got == want[n], '%s (%s)' % (what, where), n, got, want[n])
        other = getattr(c1.root()['doc'], 'other', None)
        check((other is not None) == xref, 'cross-database reference present / absent against the model (%s)' % where)
        if other is not None:
            check(other is c2.root()['doc'], 'cross-database reference does not lead to the object of the other database\'s '
                  'connection in the same group (%s)' % where)
            check(other._p_jar is c2, 'object reached through a cross-database reference belongs to another connection (%s)' % where)

    def check_view(self, where):
        self._view(self.c1, self.c2, self.work, self.xref_work, where, 'working connections differ from the model')

    def check_other(self, where):
        tm, a, b = self.fresh_pair()
        try:
            self._view(a, b, self.committed, self.xref, where, 'another connection group sees other than the committed state')
        finally:
            tm.abort()
            a.close()

    def check_clean(self, where):
        for n, c in self.c.items():
            for k in c.root().keys():
                ob = c.root()[k]
                check(not ob._p_changed, 'object still marked changed after a transaction boundary (%s)' % where, n, k)
