"""Persistent classes used by the harnesses (importable as zverif.pobj so that records can be
unpickled by the code under test) and helpers to build ZODB data records."""
import persistent
from persistent.mapping import PersistentMapping  # noqa: F401


class PObj(persistent.Persistent):
    """Plain object: no conflict resolution."""

    def __init__(self, **kw):
        self.__dict__.update(kw)


class PCounter(persistent.Persistent):
    """Resolvable counter.  The resolver records its arguments (class attribute, reset by the
    harness) and merges additively; the merge is order-sensitive on purpose (tag keeps the
    order of the three states) so that any permutation of the arguments changes the result."""
    calls = []
    mode = 'value'      # 'value' | 'raise' | 'conflict'

    def __init__(self, n=0, tag=''):
        self.n = n
        self.tag = tag

    def _p_resolveConflict(self, old, committed, new):
        # harness code on concrete states: run without the symbolic tracer (under tracing CrossHair
        # substitutes its own container types, which must not end up in a stored record)
        from zverif.api import untraced
        with untraced():
            PCounter.calls.append((dict(old), dict(committed), dict(new)))
            if PCounter.mode == 'raise':
                raise ValueError('resolver failed')
            if PCounter.mode == 'attrerror':
                raise AttributeError('resolver touched a missing attribute')
            if PCounter.mode == 'conflict':
                from ZODB.POSException import ConflictError
                raise ConflictError('resolver says no')
            out = dict(new)
            out['n'] = committed['n'] + new['n'] - old['n']
            out['tag'] = 'merge(%s|%s|%s)' % (old['tag'], committed['tag'], new['tag'])
            return out


class PCounterNA(PCounter):
    """Resolvable counter of a class with constructor arguments (__getnewargs__): its records start with the pickle of
    (class, args) instead of the bare class, and the object cannot be created without the arguments."""

    def __new__(cls, *args):
        if not args:
            raise TypeError('PCounterNA.__new__ needs its arguments')
        return PCounter.__new__(cls)

    def __getnewargs__(self):
        return ('na',)


class PNoResolve(persistent.Persistent):
    def __init__(self, n=0):
        self.n = n


def record(obj):
    """Data record (two pickles) for a persistent object that has no jar."""
    from ZODB.serialize import ObjectWriter
    w = ObjectWriter(None)
    return w.serialize(obj)


COUNTER_CLASS = ['PCounter']          # which counter class counter_record() uses (set by the C10 harness per shard)


def counter_record(n, tag=''):
    return record(globals()[COUNTER_CLASS[0]](n, tag))


def trailing_bytes(data):
    """Number of bytes of a data record that follow its two pickles (class metadata, state): must be 0."""
    import io
    from ZODB._compat import Unpickler
    f = io.BytesIO(data)
    u = Unpickler(f)
    u.persistent_load = lambda ref: ('ref', ref)
    u.find_global = lambda m, n: (m, n)
    try:
        u.find_class = lambda m, n: (m, n)
    except Exception:
        pass
    try:
        u.load()
        u.load()
    except Exception as ex:
        from zverif.api import fail
        fail('a record handed out by the storage cannot be unpickled', type(ex).__name__, repr(bytes(data)[:80]))
    return len(data) - f.tell()


def state_of(data):
    """Unpickle a record's state (second pickle) into a plain dict, for comparisons."""
    import io
    from ZODB._compat import Unpickler
    f = io.BytesIO(data)
    u = Unpickler(f)
    u.persistent_load = lambda ref: ('ref', ref)
    u.find_global = lambda m, n: (m, n)
    try:
        u.find_class = lambda m, n: (m, n)
    except Exception:
        pass
    try:
        u.load()
        return u.load()
    except Exception as ex:
        # the bytes come from the code under test (a stored record): not being able to read them back is a
        # finding about that code, not a failure of the machinery
        from zverif.api import fail
        fail('a record handed out by the storage cannot be unpickled', type(ex).__name__, repr(bytes(data)[:80]))


class PNewArgs(persistent.Persistent):
    """Class with constructor arguments: references to it carry no cached class."""

    def __init__(self, name=''):
        self.name = name
        self.data = {}

    def __getnewargs__(self):
        return ()
