"""Concrete replay of a counterexample: the harness runs on plain Python values, without
CrossHair, with the C extensions of BTrees/persistent/zodbpickle (unless PURE_PYTHON is set
by the caller).  exit 1 = the failure reproduces, 0 = harness passes, 3 = could not run."""
import importlib
import json
import sys
import traceback


def main(path):
    import logging
    logging.disable(logging.CRITICAL)
    import warnings
    warnings.simplefilter('ignore')
    from zverif.worker import unjson
    from zverif import api
    body = json.load(open(path))
    try:
        mod = importlib.import_module(body['module'])
        h = [h for h in mod.HARNESSES if h.name == body['harness']][0]
        kwargs = dict(unjson(body.get('fixed') or {}))
        kwargs.update(unjson(body['args']))
    except Exception:
        traceback.print_exc()
        return 3
    try:
        api._reset_path_stats()
        h.fn(**kwargs)
    except api.PropertyViolation as e:
        print('REPRODUCED %s: %s' % (body['harness'], e))
        return 1
    except api.IgnoreAttempt:
        print('NOT-APPLICABLE: arguments fail the harness precondition')
        return 0
    except Exception as e:
        tb = traceback.extract_tb(e.__traceback__)
        if tb and tb[-1].filename.startswith('/verif/') and '/zverif/symenv/' not in tb[-1].filename \
                and not isinstance(e, OSError):
            # (exceptions raised by the environment stubs - strict locks, file layer - are what the real
            # facility would raise for the same misuse, so they count as behaviour of the code under test)
            print('HARNESS-ERROR: exception raised by the verification machinery itself: %s: %s' % (type(e).__name__, e))
            traceback.print_exc()
            return 3
        print('REPRODUCED (exception escaping the code under test) %s: %s: %s' % (body['harness'], type(e).__name__, e))
        traceback.print_exc()
        return 1
    print('PASSED %s' % body['harness'])
    return 0


if __name__ == '__main__':
    sys.exit(main(sys.argv[1]))
