"""Declarative description of a harness (what the engine needs to run and report it)."""


class Harness:
    def __init__(self, name, fn, decides, symbolic, bounds, quick, thorough=None, pure_python=False,
                 code=(), oracle='', outside=''):
        self.name = name
        self.fn = fn
        self.decides = decides          # one sentence: which part of the property this decides
        self.symbolic = symbolic        # what the solver ranges over
        self.bounds = bounds            # stated bounds
        self.oracle = oracle
        self.outside = outside
        self.code = list(code)          # ZODB functions the harness is aimed at (for the evidence)
        self.pure_python = pure_python  # PURE_PYTHON=1 (symbolic values reach BTrees/persistent)
        self._quick = quick
        self._thorough = thorough or quick

    def tier(self, t):
        cfg = dict(self._quick if t == 'quick' else self._thorough)
        cfg.setdefault('shards', [{}])
        return cfg


def shards(**axes):
    """Cartesian product of fixed (concrete) parameter values -> list of shard dicts."""
    out = [{}]
    for k, vals in axes.items():
        out = [dict(s, **{k: v}) for s in out for v in vals]
    return out
