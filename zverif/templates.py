"""History templates (DESIGN.md 3.6): small concrete histories built by calling the REAL storage
API on the in-memory file system, with the reference model (RevStore) recorded alongside from
what the harness asked for and the tids the storage returned."""
import sys

from zverif.model.revstore import MRec, MTxn, RevStore
from zverif.symenv import clock as _clock
from zverif.symenv import vfs as _vfs


def oid(n):
    return n.to_bytes(8, 'big')


Z64 = b'\0' * 8


class Env:
    """Fresh in-memory environment: VFS + scripted clock installed into the ZODB modules."""

    def __init__(self, pure=False, start=1.7e9, step=1.0):
        import ZODB.FileStorage  # noqa
        self.fs = _vfs.install(_vfs.VFS(pure=pure))
        self.clock = _clock.install(_clock.ScriptedClock(start, step))
        self.fs.os.makedirs('/db')

    def filestorage(self, name='/db/Data.fs', **kw):
        F = sys.modules['ZODB.FileStorage.FileStorage']
        return F.FileStorage(name, **kw)

    def mappingstorage(self):
        import ZODB.MappingStorage
        return ZODB.MappingStorage.MappingStorage()


def meta(user=b'', desc=b'', ext=None):
    from ZODB.Connection import TransactionMetaData
    return TransactionMetaData(user, desc, ext)


class Hist:
    """Drives a storage through its public API and records the model."""

    def __init__(self, storage, model=None, fs=None):
        self.fs = fs                     # VFS to drop begin/returned markers into (crash harnesses)
        self.s = storage
        self.m = model if model is not None else RevStore()
        self.serial = {}                 # oid -> tid of the revision the "client" last saw
        self.tids = []
        self.log = []                    # human-readable script of what was done (for evidence)

    def _b(self):
        if self.fs is not None:
            self.fs.mark('begin', len(self.m.txns))

    save_index_each = False              # crash harnesses: an index file is saved after every commit

    def _r(self):
        if self.fs is not None:
            self.fs.mark('returned', len(self.m.txns))
            if self.save_index_each:
                self.s._save_index()

    # -- commits ------------------------------------------------------------
    def commit(self, recs, user=b'', desc=b'', ext=None):
        """recs: list of (oid, data). Each store uses the client's known serial."""
        s = self.s
        t = meta(user, desc, ext)
        self._b()
        s.tpc_begin(t)
        for o, data in recs:
            s.store(o, self.serial.get(o, Z64), data, '', t)
        s.tpc_vote(t)
        tid = s.tpc_finish(t)
        self._r()
        self.m.add(MTxn(tid, [MRec(o, d) for o, d in recs], user, desc, ext))
        for o, _ in recs:
            self.serial[o] = tid
        self.tids.append(tid)
        self.log.append(('commit', [(o.hex(), len(d)) for o, d in recs]))
        return tid

    def empty(self, user=b'', desc=b'', ext=None):
        return self.commit([], user, desc, ext)

    def delete(self, o):
        s = self.s
        t = meta()
        self._b()
        s.tpc_begin(t)
        s.deleteObject(o, self.serial[o], t)
        s.tpc_vote(t)
        tid = s.tpc_finish(t)
        self._r()
        self.m.add(MTxn(tid, [MRec(o, None, 0)], kind='delete'))
        self.serial[o] = tid
        self.tids.append(tid)
        self.log.append(('delete', o.hex()))
        return tid

    def undo(self, tid, user=b'', desc=b'undo'):
        """Undo transaction tid (must be undoable by pointer copy: the harness templates only undo
        transactions whose objects were not changed since, or were changed back)."""
        import base64
        s = self.s
        t = meta(user, desc)
        self._b()
        s.tpc_begin(t)
        s.undo(base64.encodebytes(tid).rstrip(), t)
        s.tpc_vote(t)
        new = s.tpc_finish(t)
        self._r()
        target = self.m.txn(tid)
        recs = []
        for r in target.written():
            prev = self.m.state_before(r.oid, tid)
            # the undo record is a back-pointer (size 0) to the revision just before `tid`
            holder = None
            for t2, r2 in self.m.revs(r.oid):
                if t2 < tid:
                    holder = t2
            recs.append(MRec(r.oid, prev, 0, holder if prev is not None else None))
        self.m.add(MTxn(new, recs, user, desc, kind='undo'))
        for r in recs:
            self.serial[r.oid] = new
        self.tids.append(new)
        self.log.append(('undo', tid.hex()))
        return new

    def aborted(self, recs, after_vote=True):
        """A transaction that stores, (votes) and aborts: must leave no trace."""
        s = self.s
        t = meta(b'ghost', b'aborted')
        s.tpc_begin(t)
        for o, data in recs:
            s.store(o, self.serial.get(o, Z64), data, '', t)
        if after_vote:
            s.tpc_vote(t)
        s.tpc_abort(t)
        self.log.append(('aborted', after_vote))

    def restore(self, tid, recs, user=b'', desc=b'', ext=None, status=' '):
        """Copy-in of a transaction with an explicit tid: recs = [(oid, data|None, prev_txn|None)]."""
        s = self.s
        t = meta(user, desc, ext)
        self._b()
        s.tpc_begin(t, tid, status)
        mrecs = []
        for o, data, prev_txn in recs:
            s.restore(o, tid, data, '', prev_txn, t)
            if data is None and prev_txn is None:
                mrecs.append(MRec(o, None, 0))
            else:
                size = None
                dtx = None
                if prev_txn is not None and data is not None:
                    # restore() may write a back-pointer if prev_txn holds equal data
                    pt = self.m.txn(prev_txn)
                    if pt is not None and any(r.oid == o and r.data == data for r in pt.written()):
                        size, dtx = 0, prev_txn
                mrecs.append(MRec(o, data, size, dtx))
        s.tpc_vote(t)
        got = s.tpc_finish(t)
        self._r()
        assert got == tid
        self.m.add(MTxn(tid, mrecs, user, desc, ext, status=status, kind='restore'))
        for o, _, _ in recs:
            self.serial[o] = tid
        self.tids.append(tid)
        self.log.append(('restore', tid.hex()))
        return tid


# ---------------------------------------------------------------------------
# The catalogue.  Each template takes a Hist and runs a script.

def T1(h):
    """create + updates of one oid, a second object created later"""
    h.commit([(oid(1), b'a1')])
    h.commit([(oid(1), b'a2-longer')], b'u', b'd')
    h.commit([(oid(2), b'b1')])
    h.commit([(oid(1), b'a3')], ext={'k': 1})


def T2(h):
    """several oids per transaction; one oid twice in a transaction; sparse oids"""
    h.commit([(oid(1), b'a1'), (oid(2), b'b1'), (oid(0x10005), b'far')])
    h.commit([(oid(2), b'b2'), (oid(2), b'b2-again'), (oid(3), b'c1')], b'user', b'two stores of one oid')
    h.commit([(oid(0x10005), b'far2'), (oid(1), b'a2')])


def T3(h):
    """empty transaction, metadata-only transaction, metadata of lengths 0/1/17"""
    h.commit([(oid(1), b'a1')], b'', b'')
    h.empty(b'x', b'y', {'e': 'only metadata'})
    h.commit([(oid(1), b'a2')], b'u' * 17, b'd' * 17, {'long': 'x' * 17})
    h.empty()
    h.commit([(oid(2), b'b1')], b'u')


def T4(h):
    """undo of an update, undo of a creation, undo of an undo"""
    h.commit([(oid(1), b'a1'), (oid(2), b'b1')])
    t2 = h.commit([(oid(1), b'a2')], b'u', b'to be undone')
    u1 = h.undo(t2)
    t4 = h.commit([(oid(3), b'c1')], desc=b'creates 3')
    h.undo(t4)
    h.undo(u1)


def T4U(h):
    """creation undone, redone, undone again: the last undo record points back at the first un-creation record"""
    h.commit([(oid(1), b'a1')])
    t2 = h.commit([(oid(3), b'c1')], desc=b'creates 3')
    u1 = h.undo(t2)
    u2 = h.undo(u1)
    h.undo(u2)
    h.commit([(oid(1), b'a2')], desc=b'afterwards')


def T6(h):
    """deleteObject, then re-creation"""
    h.commit([(oid(1), b'a1'), (oid(2), b'b1')])
    h.commit([(oid(2), b'b2')])
    h.delete(oid(2))
    h.commit([(oid(1), b'a2')])
    h.serial[oid(2)] = h.serial[oid(2)]
    h.commit([(oid(2), b'b-reborn')])


def T10(h):
    """aborted-after-vote and aborted-before-vote leftovers between commits"""
    h.commit([(oid(1), b'a1')])
    h.aborted([(oid(1), b'ghost1'), (oid(5), b'ghost5')], after_vote=True)
    h.commit([(oid(2), b'b1')])
    h.aborted([(oid(2), b'ghost2')], after_vote=False)
    h.commit([(oid(1), b'a2')])


def T5(h):
    """restore() with explicit tids: plain data, data=None un-creation, back-pointer hints"""
    t = [bytes([3, 0xC0 + i, 0, 0, 0, 0, 0, i + 1]) for i in range(6)]
    h.restore(t[0], [(oid(1), b'a1', None), (oid(2), b'b1', None)])
    h.restore(t[1], [(oid(1), b'a2', None)], b'u', b'd')
    h.restore(t[2], [(oid(1), b'a1', t[0])])            # "undo" copied in: hint points at holder of equal data
    h.restore(t[3], [(oid(2), None, None)])              # un-creation copied in
    h.restore(t[4], [(oid(9), b'nine', t[1])])           # hint that does not contain the oid
    h.restore(t[5], [(oid(1), b'a3', None)], status='p')


def T5C(h):
    """T5 (whose last transaction was copied in with status 'p'), then ordinary commits: they carry status ' '"""
    T5(h)
    h.commit([(oid(1), b'a4-after-the-copy'), (oid(3), b'c1')], b'u', b'ordinary commit after a restored packed transaction')
    h.commit([(oid(3), b'c2')])


def T2L(h):
    """T2 followed by a transaction that touches only a low oid (oids under two 6-byte prefixes exist)"""
    T2(h)
    h.commit([(oid(1), b'a3-low-only')])


def T3E(h):
    """T3 followed by empty transactions: the file ends in transactions without records"""
    T3(h)
    h.empty(b'e1', b'empty at the end')
    h.empty(b'e2', b'another empty one')


def TE(h):
    """only empty transactions (more than 100 bytes of them)"""
    for i in range(4):
        h.empty(b'user%d' % i, b'nothing stored, but a description of some length %d' % i)


def TS(h):
    """the first transaction is as short as a transaction can be (no records, no metadata: 31 bytes)"""
    h.empty(b'', b'')
    h.commit([(oid(1), b'a1')], b'u', b'second')
    h.commit([(oid(1), b'a2')], b'u', b'third')


def TX(h):
    """extension dictionaries whose keys collide with the names the undo log / history entries use"""
    h.commit([(oid(1), b'a1')], b'u1', b'first', {'id': b'bogus-id', 'time': 0, 'note': 'kept'})
    h.commit([(oid(1), b'a2')], b'u2', b'second', {'user_name': b'mallory', 'description': b'other', 'size': -1})
    h.commit([(oid(2), b'b1')], b'u3', b'third', {'tid': b'fake-tid'})


def TBIG(h):
    """records larger than the 64 KiB copy chunk: a 150000-byte transaction, then a 70000-byte one, then small ones"""
    h.commit([(oid(1), b'A' * 150000)], b'u', b'large')
    h.commit([(oid(2), b'B' * 70000), (oid(1), b'a-small')], b'u', b'smaller, still above one chunk')
    h.commit([(oid(2), b'b-small')], b'u', b'small')


FILE_TEMPLATES = {'T1': T1, 'T2': T2, 'T3': T3, 'T4': T4, 'T4U': T4U, 'T5': T5, 'T5C': T5C, 'T6': T6, 'T10': T10, 'T2L': T2L, 'T3E': T3E, 'TE': TE, 'TBIG': TBIG, 'TS': TS, 'TX': TX}
MAPPING_TEMPLATES = {'T1': T1, 'T2': T2, 'T3': T3}


def build_file(name, env=None, marks=False, **kw):
    env = env or Env()
    save_index_each = kw.pop('save_index_each', False)
    s = env.filestorage(**kw)
    h = Hist(s, fs=env.fs if marks else None)
    h.save_index_each = save_index_each
    FILE_TEMPLATES[name](h)
    return env, s, h


def build_mapping(name, env=None):
    env = env or Env()
    s = env.mappingstorage()
    h = Hist(s)
    MAPPING_TEMPLATES[name](h)
    return env, s, h
