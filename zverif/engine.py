"""Orchestrator: runs every harness shard of one property in parallel worker processes,
replays counterexamples concretely, applies known_findings.jsonl, writes the evidence
file and sets the exit code.

exit 0  property held on everything explored (evidence says how far that went)
exit 1  reproduced counterexample not listed in known_findings.jsonl (VIOLATION line printed)
exit 3  the machinery itself could not judge (stub self-test, vacuous harness, counterexample
        that does not reproduce, worker crash) - never reported as a violation or as success
"""
import argparse
import concurrent.futures
import hashlib
import importlib
import json
import os
import subprocess
import sys
import tempfile
import time

ROOT = os.path.dirname(os.path.dirname(os.path.abspath(__file__)))
PY = sys.executable
HARNESS_ERROR = 3


def harness_module(pid):
    return 'zverif.harness.' + pid.lower()


def load_known():
    path = os.path.join(ROOT, 'known_findings.jsonl')
    out = []
    if os.path.exists(path):
        for line in open(path):
            line = line.strip()
            if line and not line.startswith('#'):
                out.append(json.loads(line))
    return out


def run_worker(modname, h, tier, idx, tmpdir):
    cfg = h.tier(tier)
    out = os.path.join(tmpdir, '%s-%d.json' % (h.name, idx))
    env = dict(os.environ)
    # ZVERIF_SRC (development only): analyse another checkout's src/ instead of /repo's editable install
    env['PYTHONPATH'] = (os.environ['ZVERIF_SRC'] + os.pathsep if os.environ.get('ZVERIF_SRC') else '') + ROOT
    env['PYTHONHASHSEED'] = '0'
    env.pop('PURE_PYTHON', None)
    if h.pure_python:
        env['PURE_PYTHON'] = '1'
    scale = float(os.environ.get('ZVERIF_TIMEOUT_SCALE', '1'))
    hard = cfg['shards'][idx].get('_timeout', cfg.get('timeout', 60)) * scale + cfg.get('per_path_timeout', 60) + 60
    t0 = time.monotonic()
    try:
        p = subprocess.run([PY, '-m', 'zverif.worker', modname, h.name, tier, str(idx), out],
                           env=env, cwd=ROOT, stdout=subprocess.PIPE, stderr=subprocess.STDOUT, timeout=hard)
        tail = p.stdout.decode('utf-8', 'replace')[-3000:]
    except subprocess.TimeoutExpired as e:
        tail = 'worker killed after %.0fs' % hard
    if os.path.exists(out):
        try:
            res = json.load(open(out))
        except Exception as e:
            res = dict(harness=h.name, shard=idx, verdict='ERROR', error='bad result file: %r' % e)
    else:
        res = dict(harness=h.name, shard=idx, verdict='ERROR', error='no result: ' + tail)
    res['shard_index'] = idx
    res.setdefault('wall_s', round(time.monotonic() - t0, 3))
    if res.get('verdict') == 'ERROR':
        res['output_tail'] = tail
    return res


def replay_file(pid, h, modname, cex):
    d = os.path.join(ROOT, 'replays', pid)
    os.makedirs(d, exist_ok=True)
    body = dict(property=pid, module=modname, harness=h.name, fixed=cex.get('fixed') or {}, args=cex['args'],
                message=cex.get('message'), kind=cex.get('kind'), pure_python=False)
    key = hashlib.sha1(json.dumps([body['harness'], body['fixed'], body['args']], sort_keys=True).encode()).hexdigest()[:10]
    path = os.path.join(d, '%s-%s.json' % (h.name, key))
    with open(path, 'w') as f:
        json.dump(body, f, indent=1, sort_keys=True)
    return path


def run_replay(path, pure_python=False):
    """Returns (status, text): status in reproduced / passed / error."""
    env = dict(os.environ)
    env['PYTHONPATH'] = (os.environ['ZVERIF_SRC'] + os.pathsep if os.environ.get('ZVERIF_SRC') else '') + ROOT
    env.pop('PURE_PYTHON', None)
    if pure_python:
        env['PURE_PYTHON'] = '1'
    try:
        p = subprocess.run([PY, '-m', 'zverif.replay', path], env=env, cwd=ROOT, stdout=subprocess.PIPE,
                           stderr=subprocess.STDOUT, timeout=300)
    except subprocess.TimeoutExpired:
        return 'reproduced', 'replay did not terminate within 300 s (treated as reproduced: non-termination)'
    text = p.stdout.decode('utf-8', 'replace')
    if p.returncode == 1:
        return 'reproduced', text
    if p.returncode == 0:
        return 'passed', text
    return 'error', text


def classify_known(known, pid, modname, hname, body):
    mod = importlib.import_module(modname)
    for k in known:
        if k.get('status') != 'open' or k.get('property') != pid:
            continue
        if k.get('harness') not in (None, hname):
            continue
        cl = k.get('classifier')
        fn = getattr(mod, cl, None) if cl else None
        try:
            if fn is None or fn(body):
                return k
        except Exception:
            continue
    return None


def check_property(pid, tier, jobs, only=None, keep=False, verbose=True):
    t0 = time.monotonic()
    modname = harness_module(pid)
    mod = importlib.import_module(modname)
    harnesses = [h for h in mod.HARNESSES if only is None or h.name in only]
    seed = int(os.environ.get('VERIF_SEED', '0') or 0)
    tasks = []
    for h in harnesses:
        for i in range(len(h.tier(tier)['shards'])):
            tasks.append((h, i))
    results = []
    with tempfile.TemporaryDirectory(prefix='zverif-') as tmpdir:
        with concurrent.futures.ThreadPoolExecutor(max_workers=jobs) as ex:
            futs = {ex.submit(run_worker, modname, h, tier, i, tmpdir): (h, i) for h, i in tasks}
            for f in concurrent.futures.as_completed(futs):
                h, i = futs[f]
                r = f.result()
                results.append((h, i, r))
                if verbose:
                    print('  [%s] %s shard %d %s: %s paths=%s confirmed=%s ignored=%s unknown=%s z3=%s/%.1fs wall=%.1fs'
                          % (pid, h.name, i, json.dumps(r.get('shard')), r.get('verdict'), r.get('paths'),
                             r.get('confirmed'), r.get('ignored'), r.get('unknown'), r.get('z3_queries'),
                             r.get('z3_seconds') or 0, r.get('wall_s') or 0), flush=True)
    results.sort(key=lambda t: (t[0].name, t[1]))

    known = load_known()
    violations, known_hits, infra = [], [], []
    for h, i, r in results:
        v = r.get('verdict')
        if v == 'ERROR':
            infra.append('%s shard %d: worker error: %s' % (h.name, i, (r.get('error') or '')[-1500:]))
        elif v == 'NONDETERMINISTIC':
            infra.append('%s shard %d: CrossHair NotDeterministic: %s' % (h.name, i, (r.get('error') or '')[-800:]))
        elif v == 'REFUTED':
            cex = r['counterexample']
            if cex.get('args') is None:
                infra.append('%s shard %d: failing path but arguments could not be realised' % (h.name, i))
                continue
            path = replay_file(pid, h, modname, cex)
            status, text = run_replay(path)
            if status != 'reproduced' and h.pure_python:
                # dependency divergence guard: try again with the pure-Python dependencies
                status2, text2 = run_replay(path, pure_python=True)
                if status2 == 'reproduced':
                    status, text = status2, text2 + '\n(reproduced with PURE_PYTHON=1 only)'
            r['replay'] = dict(path=path, status=status, output=text[-1500:])
            if status == 'reproduced':
                body = json.load(open(path))
                k = classify_known(known, pid, modname, h.name, body)
                if k is not None:
                    known_hits.append((k, path))
                else:
                    violations.append((h, path, cex, text))
            else:
                infra.append('%s shard %d: counterexample %s did not reproduce concretely (%s): %s'
                             % (h.name, i, path, status, text[-800:]))
        if v in ('CONFIRMED', 'UNKNOWN') and not r.get('reached'):
            infra.append('%s shard %d: vacuous - no explored path reached the harness assertions '
                         '(reachability witness failed; verdict %s, paths %s, ignored %s, unknown %s %s)'
                         % (h.name, i, v, r.get('paths'), r.get('ignored'), r.get('unknown'), r.get('unknown_reasons')))

    write_evidence(pid, tier, seed, mod, results, violations, known_hits, infra, time.monotonic() - t0)
    for k, path in known_hits:
        print('KNOWN-FINDING: property=%s %s (replay=%s)' % (pid, k.get('description', ''), os.path.relpath(path, ROOT)))
    for h, path, cex, text in violations:
        print('VIOLATION property=%s replay=%s' % (pid, os.path.relpath(path, ROOT)))
        print('  harness=%s %s' % (h.name, cex.get('message')))
    for m in infra:
        print('HARNESS-ERROR property=%s %s' % (pid, m))
    if violations:
        return 1
    if infra:
        return HARNESS_ERROR
    conf = sum(1 for _, _, r in results if r.get('verdict') == 'CONFIRMED')
    print('OK property=%s tier=%s shards=%d confirmed_over_all_paths=%d bounded_not_exhaustive=%d wall=%.1fs'
          % (pid, tier, len(results), conf, len(results) - conf, time.monotonic() - t0))
    return 0


def write_evidence(pid, tier, seed, mod, results, violations, known_hits, infra, wall):
    hs = []
    tot_paths = tot_reached = tot_q = 0
    tot_z3 = 0.0
    traced = set()
    untraced = set()
    samples = []
    all_exh = True
    byh = {}
    for h, i, r in results:
        byh.setdefault(h.name, (h, []))[1].append(r)
    for name, (h, rs) in byh.items():
        shards = []
        for r in rs:
            tot_paths += r.get('paths') or 0
            tot_reached += r.get('reached') or 0
            tot_q += r.get('z3_queries') or 0
            tot_z3 += r.get('z3_seconds') or 0
            traced.update(r.get('functions_traced') or [])
            untraced.update(r.get('functions_untraced') or [])
            if r.get('verdict') != 'CONFIRMED':
                all_exh = False
            for s in (r.get('samples') or [])[:2]:
                if len(samples) < 12:
                    samples.append(dict(harness=name, fixed=r.get('shard'), args=s))
            shards.append({k: r.get(k) for k in ('shard', 'verdict', 'exhausted', 'paths', 'confirmed', 'ignored',
                                                  'unknown', 'unknown_reasons', 'reached', 'checks', 'failing',
                                                  'z3_queries', 'z3_seconds', 'z3_results', 'wall_s', 'stopped',
                                                  'notes', 'replay', 'counterexample')
                           if r.get(k) not in (None, {}, [])})
        hs.append(dict(name=name, decides=h.decides, symbolic_variables=h.symbolic, bounds=h.bounds, oracle=h.oracle,
                       outside_the_claim=h.outside, code_under_test=h.code, pure_python_dependencies=h.pure_python,
                       shards=shards))
    if not samples:
        samples = [dict(note='no completed path produced a sample')]
    traced_l = sorted(traced)
    ev = dict(
        property_id=pid, tier=tier, seed=seed, level='other',
        coverage=dict(
            explanation=('Bounded symbolic execution of the real ZODB code (CrossHair 0.0.110 + z3): each harness '
                         'function takes the quantified inputs as symbolic arguments, CrossHair re-executes it once per '
                         'feasible path with z3 deciding every branch on a symbolic value; verdict CONFIRMED means the '
                         'path tree was exhausted, i.e. the assertions hold for every argument value inside the stated '
                         'bounds; UNKNOWN means the budget ended first (bounded search, not exhaustive). '
                         'Counterexamples are replayed concretely on the unpatched code before being reported.'),
            evaluations=tot_paths,
            distinct_nontrivial=tot_reached,
            rule=('one evaluation = one explored path (a distinct path condition over the symbolic arguments); '
                  'non-trivial = the path passed every assume() and reached the end of the harness (reachability '
                  'witness), so its assertions were evaluated under a satisfiable path condition'),
            exhaustive=bool(all_exh and results),
            samples=samples,
            harnesses=hs,
            functions_executed_symbolically=traced_l,
            functions_executed_concretely_only=sorted(untraced - traced)[:400],
            z3_queries=tot_q, z3_seconds=round(tot_z3, 2),
            known_findings_hit=[dict(description=k.get('description'), replay=os.path.relpath(p, ROOT)) for k, p in known_hits],
            harness_errors=infra,
        ),
        assumptions=list(getattr(mod, 'ASSUMPTIONS', [])),
        wall_s=round(wall, 2),
        violations=len(violations),
    )
    # (development runs against a scratch tree keep their evidence out of the committed directory)
    evdir = os.environ.get('ZVERIF_EVIDENCE_DIR') or os.path.join(ROOT, 'evidence')
    os.makedirs(evdir, exist_ok=True)
    with open(os.path.join(evdir, pid + '.json'), 'w') as f:
        json.dump(ev, f, indent=1, sort_keys=True)


def main(argv=None):
    ap = argparse.ArgumentParser(prog='check')
    ap.add_argument('property', nargs='?')
    ap.add_argument('--tier', default=os.environ.get('VERIF_TIER') or 'quick', choices=['quick', 'thorough'])
    ap.add_argument('--replay')
    ap.add_argument('--only', action='append', help='run only this harness (repeatable)')
    ap.add_argument('--jobs', type=int, default=int(os.environ.get('ZVERIF_JOBS', '16')))
    ap.add_argument('--selftest', action='store_true', help='run the stub-vs-real differential self-test only')
    a = ap.parse_args(argv)
    if a.replay:
        st, text = run_replay(os.path.abspath(a.replay))
        print(text)
        if st == 'reproduced':
            body = json.load(open(a.replay))
            print('VIOLATION property=%s replay=%s' % (body.get('property'), a.replay))
            return 1
        return 0 if st == 'passed' else HARNESS_ERROR
    from zverif.symenv import selftest
    problems = selftest.run()
    if problems:
        for p in problems:
            print('HARNESS-ERROR stub self-test: %s' % p)
        return HARNESS_ERROR
    if a.selftest:
        print('stub self-test ok')
        return 0
    if not a.property:
        ap.error('property id required')
    return check_property(a.property.upper(), a.tier, a.jobs, only=a.only)


if __name__ == '__main__':
    sys.exit(main())
