"""C16 - a demo storage never modifies its base and reads as changes-over-base.

H-ARG: oid and tid/serial/before arguments are symbolic (8 bytes) in loadBefore / loadSerial /
load / getTid of a DemoStorage stacked over a base; the model is the concatenation of the
base's and the changes' histories, so revision intervals must join across the layers.
Layer kinds (mapping / file) and stacking depth (push) are shards.  A symbolic op selector
drives commits, undo and pack through the demo storage and the base must stay identical
(model and, for a file base, bytes).
"""
import sys

import ZODB.DemoStorage
import ZODB.FileStorage  # noqa: F401
import ZODB.MappingStorage

from zverif import battery as B
from zverif import graph as GR
from zverif import templates as T
from zverif.api import assume, check, fail, reached, untraced, choose, realize, note
from zverif.model.revstore import MRec, MTxn, RevStore
from zverif.spec import Harness, shards
from zverif.symenv import codec

codec.install()
F = sys.modules['ZODB.FileStorage.FileStorage']

ASSUMPTIONS = [
    'base history: T1-like (oids 1,2) plus an object only in the base (3); changes history: updates of 1, a new object '
    '(4), a second update of 1; with depth 2 a further layer on top (update of 2, new object 5)',
    'layer kinds: mapping or file for base and for changes; blob-capable base: harness demo_blobs (real scratch directory)',
    'pure-Python BTrees during symbolic execution',
]


def _layer(env, kind, name):
    if kind == 'file':
        return F.FileStorage(name)
    return env.mappingstorage()


def build(base_kind, changes_kind, depth):
    env = T.Env()
    base = _layer(env, base_kind, '/db/Base.fs')
    hb = T.Hist(base)
    hb.commit([(T.oid(1), b'base-a1'), (T.oid(2), b'base-b1'), (T.oid(3), b'base-only')], b'u', b'base t1')
    hb.commit([(T.oid(1), b'base-a2')], desc=b'base t2')
    demo = ZODB.DemoStorage.DemoStorage(base=base, changes=_layer(env, changes_kind, '/db/Changes.fs'))
    h = T.Hist(demo, hb.m.copy())
    h.serial = dict(hb.serial)
    h.commit([(T.oid(1), b'ch-a3')], b'u', b'changes t1')
    h.commit([(T.oid(4), b'ch-new-d1')], desc=b'changes t2')
    h.commit([(T.oid(1), b'ch-a4'), (T.oid(4), b'ch-d2')], desc=b'changes t3')
    top = demo
    if depth == 2:
        top = demo.push(_layer(env, changes_kind, '/db/Changes2.fs'))
        h2 = T.Hist(top, h.m)
        h2.serial = h.serial
        h2.commit([(T.oid(2), b'top-b2'), (T.oid(5), b'top-new')], desc=b'top t1')
        h = h2
    return env, base, hb, top, h


def _shape(o):
    assume(len(o) == 8)
    assume(o[:7] == b'\0' * 7)


def h_load_before(o: bytes, tid: bytes, base_kind: str, changes_kind: str, depth: int) -> None:
    _shape(o)
    assume(len(tid) == 8)
    with untraced():
        env, base, hb, demo, h = build(base_kind, changes_kind, depth)
    B.q_load_before(demo, h.m, o, tid)
    reached()


def h_load_serial(o: bytes, tid: bytes, base_kind: str, changes_kind: str, depth: int) -> None:
    _shape(o)
    assume(len(tid) == 8)
    with untraced():
        env, base, hb, demo, h = build(base_kind, changes_kind, depth)
    B.q_load_serial(demo, h.m, o, tid)
    reached()


def h_load(o: bytes, base_kind: str, changes_kind: str, depth: int) -> None:
    _shape(o)
    with untraced():
        env, base, hb, demo, h = build(base_kind, changes_kind, depth)
    B.q_load(demo, h.m, o)
    B.q_get_tid(demo, h.m, o)
    B.q_last(demo, h.m)
    reached()


def h_base_unchanged(op: int, base_kind: str, changes_kind: str) -> None:
    """Whatever is done through the demo storage, the base keeps its contents."""
    with untraced():
        env, base, hb, demo, h = build(base_kind, changes_kind, 1)
        pre_model = B.mtxn_view  # noqa
        before = [B.mtxn_view(t) for t in GR.model_from_storage(base).txns]
        if base_kind == 'file':
            base._file.flush()
            before_bytes = bytes(env.fs.content('/db/Base.fs'))
    k = choose(op, 7)
    with untraced():
        from ZODB.POSException import ConflictError
        from ZODB.serialize import referencesf
        import base64
        note('op', k)
        if k == 0:
            h.commit([(T.oid(1), b'more'), (T.oid(3), b'base-only-changed')])
        elif k == 1:
            h.commit([(T.oid(9), b'new')])
            h.aborted([(T.oid(2), b'ghost')], after_vote=True)
        elif k == 2:
            t = T.meta()
            demo.tpc_begin(t)
            try:
                demo.store(T.oid(2), T.Z64, b'stale', '', t)      # conflict against a revision that lives in the base
                fail('stale store against a base revision accepted')
            except ConflictError:
                pass
            demo.tpc_abort(t)
        elif k == 3:
            if hasattr(demo, 'undo'):
                t = T.meta(b'u', b'undo')
                demo.tpc_begin(t)
                demo.undo(base64.encodebytes(h.m.txns[-1].tid).rstrip(), t)
                demo.tpc_vote(t)
                demo.tpc_finish(t)
        elif k == 4:
            try:
                demo.pack(env.clock.time(), lambda p: [], gc=False)
            except Exception as ex:
                note('pack', type(ex).__name__)
            B.q_load(demo, h.m, T.oid(1))
            B.q_load(demo, h.m, T.oid(4))
        elif k == 5:
            for _ in range(3):
                n = demo.new_oid()
                check(n not in (T.oid(1), T.oid(2), T.oid(3), T.oid(4)), 'new_oid collides with a layer', n)
        elif k == 6:
            top = demo.push()
            h2 = T.Hist(top, h.m)
            h2.serial = h.serial
            h2.commit([(T.oid(3), b'pushed')])
            check(top.pop() is demo, 'pop does not return the storage pushed on')
        after = [B.mtxn_view(t) for t in GR.model_from_storage(base).txns]
        check(after == before, 'base storage contents changed through the demo storage', k)
        if base_kind == 'file':
            base._file.flush()
            check(bytes(env.fs.content('/db/Base.fs')) == before_bytes, 'base data file bytes changed', k)
        for o in (1, 2, 3):
            B.q_load(base, hb.m, T.oid(o))
    reached()


def h_demo_pack(gcsel: int, stacksel: int, base_kind: str) -> None:
    """Pack through a demo storage whose changes refer to objects that live only in the base: whatever the
    gc setting, afterwards every object still reads as before and the base is unchanged."""
    st = choose(stacksel, 3)
    with untraced():
        import transaction
        import ZODB
        from persistent.mapping import PersistentMapping as PM
        env = T.Env()
        base = _layer(env, base_kind, '/db/Base.fs')
        dbb = ZODB.DB(base)
        tmb = transaction.TransactionManager()
        cb = dbb.open(tmb)
        cb.root()['M'] = PM()
        cb.root()['M']['N'] = PM(v=1)
        tmb.commit()
        cb.close()
        base_before = [B.mtxn_view(t) for t in GR.model_from_storage(base).txns]
        # 0: demo over the base; 1: demo pushed on a demo with (still) empty changes over the base; 2: explicit changes storage
        if st == 1:
            demo = ZODB.DemoStorage.DemoStorage(base=base).push()
        elif st == 2:
            demo = ZODB.DemoStorage.DemoStorage(base=base, changes=env.mappingstorage())
        else:
            demo = ZODB.DemoStorage.DemoStorage(base=base)
        db = ZODB.DB(demo)
        tm = transaction.TransactionManager()
        c = db.open(tm)
        r = c.root()
        r['k'] = 1
        r['M']['N']['B'] = PM(payload='x')        # a changes record that refers to base-only objects and to a new one
        tm.commit()
        r['k'] = 2
        tm.commit()
    g = choose(gcsel, 3)
    with untraced():
        note('stack', st)
        kw = [{}, dict(gc=True), dict(gc=False)][g]
        note('gc', ['default', 'True', 'False'][g])
        from ZODB.serialize import referencesf
        try:
            demo.pack(env.clock.time(), referencesf, **kw)
            note('pack', 'ok')
        except Exception as ex:
            note('pack', type(ex).__name__)
            # refusing (TypeError: gc not supported in this configuration) is fine; any other failure of a pack is not
            check(isinstance(ex, TypeError), 'pack through a demo storage fails', type(ex).__name__, str(ex)[:100])
        c.cacheMinimize()
        tm.begin()
        try:
            got = (r.get('k'), dict(r['M']['N']).get('v'), r['M']['N']['B']['payload'])
        except Exception as ex:
            fail('objects no longer readable after a pack through the demo storage', type(ex).__name__, str(ex)[:100])
        check(got == (2, 1, 'x'), 'state changed by a pack through the demo storage', got)
        check([B.mtxn_view(t) for t in GR.model_from_storage(base).txns] == base_before, 'base changed by a pack through the demo storage')
    reached()


_KINDS = [('mapping', 'mapping'), ('file', 'mapping'), ('mapping', 'file'), ('file', 'file')]


def _sh(kinds, depths):
    return [dict(base_kind=b, changes_kind=c, depth=d) for b, c in kinds for d in depths]


def h_demo_blobs(first: int, stack: bool, wrote: bool, base_kind: str) -> None:
    """A demo storage (optionally with a pushed layer) over a blob-capable base that holds a blob: the very first blob
    read - through a connection, loadBlob or openCommittedBlobFile (solver-chosen), before or after another blob was
    written through the demo storage - returns the base's bytes; a rewrite through the demo storage is read back and
    leaves the base's file and history alone."""
    k = choose(first, 3)
    with untraced():
        import transaction
        import ZODB
        from ZODB.blob import Blob
        from zverif.harness.c13 import BlobWorld
        w = BlobWorld(base_kind)
        try:
            w.new(False)
            w.commit()
            base = w.s
            want = w.committed['b1']
            boid = w.root['b1']._p_oid
            from ZODB.utils import load_current
            bserial = load_current(w.s, boid)[1]
            base_last = base.lastTransaction()
            base_files, _ = w.blob_files()
            demo = ZODB.DemoStorage.DemoStorage(base=base)
            top = demo.push() if stack else demo
            db = ZODB.DB(top)
            tm = transaction.TransactionManager()
            c = db.open(tm)
            if wrote:
                nb = Blob()
                with nb.open('w') as f:
                    f.write(b'written through the demo storage')
                c.root()['demo_blob'] = nb
                tm.commit()
            try:
                if k == 0:
                    with c.root()['b1'].open('r') as f:
                        got = f.read()
                elif k == 1:
                    with open(top.loadBlob(boid, bserial), 'rb') as f:
                        got = f.read()
                else:
                    f = top.openCommittedBlobFile(boid, bserial)
                    got = f.read()
                    f.close()
            except Exception as ex:
                fail('blob that lives in the base cannot be read through the demo storage', k, type(ex).__name__, str(ex)[:100])
            check(got == want, 'blob bytes read through the demo storage differ from the base', k)
            with c.root()['b1'].open('w') as f:
                f.write(b'rewritten in the demo layer')
            tm.commit()
            c2 = db.open(transaction.TransactionManager())
            with c2.root()['b1'].open('r') as f:
                check(f.read() == b'rewritten in the demo layer', 'blob rewritten through the demo storage does not read back')
            if wrote:
                with c2.root()['demo_blob'].open('r') as f:
                    check(f.read() == b'written through the demo storage', 'blob created through the demo storage does not read back')
            check(base.lastTransaction() == base_last, 'the base storage received a transaction')
            files_now, _ = w.blob_files()
            check(files_now == base_files, 'blob files of the base changed', sorted(set(files_now) ^ set(base_files)))
            with open(base.loadBlob(boid, bserial), 'rb') as f:
                check(f.read() == want, 'blob bytes in the base changed')
            c.close()
            c2.close()
        finally:
            w.destroy()
    reached()


def h_tid_after_base(c0: int, c1: int, c2: int, c3: int, c4: int, form: int = 0) -> None:
    """New transaction ids come after everything in the base, whatever the clock says and however the caller spells
    "no id given" (C04 tid_monotonic on the demo storage)."""
    from zverif.harness import c04
    c04.h_tid_monotonic(c0, c1, c2, c3, c4, 'demo', False, form)


from zverif.harness.c20 import h_demo as _demo_new_oid  # noqa: E402
from zverif.harness.c03 import h_store_serial as _store_serial  # noqa: E402  (conflict detection across both layers)
from zverif.harness.c03 import h_check_current as _check_current  # noqa: E402

HARNESSES = [
    Harness('load_before', h_load_before,
            decides='DemoStorage.loadBefore(oid, tid) = newest matching revision across changes-over-base with correctly joined intervals',
            symbolic='oid (last byte free), tid (8 free bytes)', bounds='2-3 layers, 5-6 transactions', oracle='RevStore over both layers',
            pure_python=True, code=['DemoStorage.loadBefore', 'MappingStorage.loadBefore', 'FileStorage.loadBefore'],
            quick=dict(timeout=170, shards=_sh(_KINDS[:3], [1]) + _sh(_KINDS[:1], [2])),
            thorough=dict(timeout=600, shards=_sh(_KINDS, [1, 2]))),
    Harness('load_serial', h_load_serial,
            decides='DemoStorage.loadSerial finds revisions of either layer', symbolic='oid, serial (8 free bytes)',
            bounds='as load_before', oracle='RevStore over both layers', pure_python=True, code=['DemoStorage.loadSerial'],
            quick=dict(timeout=120, shards=_sh(_KINDS[:2], [1])),
            thorough=dict(timeout=600, shards=_sh(_KINDS, [1, 2]))),
    Harness('load', h_load,
            decides='load / getTid / lastTransaction over the merged view', symbolic='oid', bounds='as load_before',
            oracle='RevStore over both layers', pure_python=True, code=['DemoStorage.load', 'getTid', 'lastTransaction'],
            quick=dict(timeout=100, shards=_sh(_KINDS[:2], [1, 2])),
            thorough=dict(timeout=300, shards=_sh(_KINDS, [1, 2]))),
    Harness('store_serial', _store_serial,
            decides='conflict detection treats both layers as one database: a store quoting a serial other than the current revision - '
                    'whichever layer holds it - is refused or merged, never accepted blindly (same harness as C03 store_serial)',
            symbolic='serial (8 free bytes), object selector', bounds='history RC split over base and changes', oracle='RevStore + resolver arithmetic',
            pure_python=True, code=['DemoStorage.store'],
            quick=dict(timeout=100, shards=shards(storage=['demo', 'demo_file'])), thorough=dict(timeout=300, shards=shards(storage=['demo', 'demo_file']))),
    Harness('check_current', _check_current,
            decides='a declared read dependency (checkCurrentSerialInTransaction) is judged against the merged view: current iff the serial '
                    'is the newest revision in changes-over-base, also for objects that live only in the base (C03 check_current)',
            symbolic='serial (8 free bytes), object selector (in changes / only in base / missing)', bounds='history RC over 2 layers',
            oracle='RevStore', code=['DemoStorage.checkCurrentSerialInTransaction', 'DemoStorage.getTid'],
            quick=dict(timeout=100, shards=shards(storage=['demo', 'demo_file'])), thorough=dict(timeout=300, shards=shards(storage=['demo', 'demo_file']))),
    Harness('new_oid', _demo_new_oid,
            decides='new ids never collide with ids in either layer or issued before, whatever the random draws (same harness as C20 demo)',
            symbolic='3 random draws (ints in a window around all ids present)', bounds='<= 2 allocations; base {70,71}, changes {75}',
            oracle='set difference', pure_python=True, code=['DemoStorage.new_oid'],
            quick=dict(timeout=150, shards=shards(nalloc=[2], commit_at=[-1], abort_at=[-1])), thorough=dict(timeout=600, shards=shards(nalloc=[2, 3], commit_at=[-1, 0, 1], abort_at=[-1, 0]))),
    Harness('demo_pack', h_demo_pack,
            decides='a pack through a demo storage (default gc, gc on, gc off) whose changes refer to base-only objects leaves every '
                    'object readable with its current state and the base unchanged',
            symbolic='gc setting selector, stack selector (demo over base / pushed on a demo with empty changes / explicit changes storage)', bounds='object graph of 4 objects over 2 layers', oracle='state before the pack',
            code=['DemoStorage.pack', 'MappingStorage.pack (GC sweep)'],
            quick=dict(timeout=60, shards=shards(base_kind=['mapping', 'file'])), thorough=dict(timeout=60, shards=shards(base_kind=['mapping', 'file']))),
    Harness('demo_blobs', h_demo_blobs,
            decides='over a blob-capable base holding a blob: the first blob read through the demo storage (connection / loadBlob / '
                    'openCommittedBlobFile; with or without a pushed layer; before or after a blob was written through it) returns the '
                    'base\'s bytes; rewriting it through the demo storage reads back and leaves the base\'s files and history alone',
            symbolic='read route (3), pushed layer, an earlier blob write through the demo storage', bounds='1 blob in the base; real scratch directory',
            oracle='bytes by construction; directory listing of the base', code=['DemoStorage.loadBlob/openCommittedBlobFile/storeBlob/_blobify/push'],
            quick=dict(timeout=100, shards=shards(base_kind=['file', 'mapping'])), thorough=dict(timeout=200, shards=shards(base_kind=['file', 'mapping', 'proxy']))),
    Harness('tid_after_base', h_tid_after_base,
            decides='transaction ids chosen by a demo storage come after the base\'s last transaction whatever the clock returns (C04 tid_monotonic, demo storage)',
            symbolic='4 clock readings, spelling of the call (4 forms)', bounds='4 consecutive tpc_begin over base history T1', oracle='strict increase above the base\'s last id',
            code=['DemoStorage.tpc_begin'], quick=dict(timeout=60), thorough=dict(timeout=120)),
    Harness('base_unchanged', h_base_unchanged,
            decides='commits, aborts, conflicts, undo, pack, id allocation and push/pop through the demo storage leave the base identical',
            symbolic='operation selector (0..6)', bounds='one operation per run', oracle='base iteration + bytes before/after',
            code=['DemoStorage.store/tpc_*/undo/pack/new_oid/push/pop'],
            quick=dict(timeout=100, shards=[dict(base_kind=b, changes_kind=c) for b, c in _KINDS]),
            thorough=dict(timeout=300, shards=[dict(base_kind=b, changes_kind=c) for b, c in _KINDS])),
]

MANIFEST = dict(
    text='Bounded symbolic execution of DemoStorage\'s read path with symbolic oid and tid/serial over two- and three-layer '
         'stacks of mapping/file storages, compared with a model that concatenates the layers\' histories (so the joining of '
         'revision intervals across layers is decided for every tid boundary), plus a selector-driven check that no '
         'operation through the demo storage alters the base (iteration and bytes).',
    note='one base/changes history; oids with the last byte free; blob layers in C13; conflict detection, read dependencies and id '
         'allocation across layers: the C03 / C20 harnesses are registered here on demo stacks; pack through plain / pushed / explicit-changes stacks.',
    design_ref='DESIGN.md section 4, C16',
)
