"""C12 - savepoint rollback restores the savepoint state exactly, any number of times.

H-PROG: a program is a list of solver-chosen op-codes over {modify, add, add explicitly,
savepoint, rollback(k), commit, abort} with solver-chosen operands (which object, which
savepoint); it is interpreted against the real DB/Connection/TmpStore and compared, after
every step, with a model that keeps one snapshot per savepoint.  A directed family covers the
shape named in the property text: S, op, S, R(k), op, S, R(k') with all of op, k, k' chosen by
the solver.  A unit harness drives TmpStore.store/load/reset with symbolic payload bytes.
"""
import sys
from typing import List

import ZODB.Connection as CONN

from zverif import progs
from zverif import templates as T
from zverif.api import assume, check, fail, reached, untraced, choose, realize, note, pick
from zverif.spec import Harness, shards
from zverif.symenv import codec

codec.install()

ASSUMPTIONS = [
    'object values are concrete (pickle boundary); what the solver ranges over is the program: op-codes and operands',
    'the transaction package\'s savepoint API decides which rollbacks are allowed: rolling back to savepoint k invalidates '
    'savepoints taken after k; savepoint k itself stays valid and can be rolled back to again',
    'blob writes inside savepoints are covered in C13',
]

OPS = ['modify', 'add', 'add_explicit', 'savepoint', 'rollback', 'commit', 'abort']


def _step(w, op, a):
    if op == 'modify':
        return w.modify(a)
    if op == 'add':
        return w.add()
    if op == 'add_explicit':
        return w.add(explicit=True)
    if op == 'savepoint':
        return w.savepoint()
    if op == 'rollback':
        return w.rollback(a)
    if op == 'commit':
        return w.commit()
    if op == 'abort':
        return w.abort()
    if op == 'other':
        return w.other_commit(a)
    if op == 'fail_sp':
        return w.unpicklable_savepoint()
    raise ValueError(op)


def _run(codes, args, storage):
    """codes/args: concrete lists.  Runs the program, checking after every step."""
    w = progs.World(storage)
    w.add()
    w.add()
    w.commit()                         # two committed objects to start from
    trace = []
    for op, a in zip(codes, args):
        t = _step(w, op, a)
        if t is None:
            assume(False)              # operation not applicable in this state: not a program
        trace.append(t)
        where = ' '.join(trace)
        w.check_view(where)
        if op in ('commit', 'abort', 'fail_sp'):
            w.check_clean(where)
            w.check_other_connection(where)
        elif op in ('savepoint', 'rollback'):
            w.check_other_connection(where)
    # objects that were new in an aborted transaction can be added again, with their state
    w.readd_disowned(' '.join(trace))
    # finally: commit stores exactly the final states; abort discards everything
    w.commit()
    w.check_view('final commit after ' + ' '.join(trace))
    w.check_clean('final commit')
    w.check_other_connection('final commit after ' + ' '.join(trace))
    note('len', len(trace))
    w.close()


CODES = ['modify0', 'modify1', 'add', 'add_explicit', 'savepoint', 'rollback0', 'rollback1', 'rollback2', 'commit', 'abort',
         'modify2', 'other0', 'fail_sp']


def _decode(code, nsp):
    """-> (op, operand, new number of valid savepoints) or None if the code is not applicable."""
    if code.startswith('modify'):
        return 'modify', int(code[-1]), nsp
    if code == 'other0':
        return 'other', 0, nsp
    if code.startswith('rollback'):
        k = int(code[-1])
        if k >= nsp:
            return None
        return 'rollback', k, k + 1
    if code == 'savepoint':
        return 'savepoint', 0, nsp + 1
    if code in ('commit', 'abort', 'fail_sp'):
        return code, 0, 0
    return code, 0, nsp


def h_program(c0: int, c1: int, c2: int, c3: int, c4: int, c5: int, n: int, storage: str, first: str) -> None:
    """n solver-chosen steps; `first` (shard) optionally fixes the first step to split the work."""
    cs = [c0, c1, c2, c3, c4, c5]
    codes, args = [], []
    nsp = 0
    for i in range(6):
        if i >= n:
            assume(cs[i] == 0)
            continue
        if i == 0 and first != 'any':
            assume(cs[0] == 0)
            code = first
        else:
            code = CODES[pick(cs[i], 0, len(CODES))]
        d = _decode(code, nsp)
        if d is None:
            assume(False)
        op, a, nsp = d
        codes.append(op)
        args.append(a)
    with untraced():
        _run(codes, args, storage)
    reached()


MID = ['modify', 'add', 'add_explicit', 'nothing']


def h_directed(p0: int, p1: int, p2: int, k1: int, k2: int, extra_sp: bool, touch: bool, storage: str) -> None:
    """op, S, op, [S, [modify the newest object again]], R(k1), op, S, R(k2): repeated rollbacks combined with later
    savepoints; an object saved by a savepoint may be changed again before the rollback."""
    ops = [MID[choose(p, len(MID))] for p in (p0, p1, p2)]
    nsp1 = 2 if extra_sp else 1
    r1 = choose(k1, nsp1)
    r2 = choose(k2, r1 + 2)
    codes, args = [], []

    def emit(op, a=0):
        if op != 'nothing':
            codes.append(op)
            args.append(a)
    emit(ops[0])
    emit('savepoint')
    emit(ops[1])
    if extra_sp:
        emit('savepoint')
        if touch:
            emit('modify', -1)          # the newest object (possibly created after the first savepoint and saved by the second)
    else:
        assume(not touch)
    emit('rollback', r1)
    emit(ops[2])
    emit('savepoint')
    emit('rollback', r2)
    with untraced():
        _run(codes, args, storage)
    reached()


def h_tmpstore(d1: bytes, d2: bytes, d3: bytes, lens: str) -> None:
    """TmpStore alone, with symbolic payloads: what was stored before a savepoint is what load returns
    after reset to it, repeatedly; later stores are gone."""
    l1, l2, l3 = [int(x) for x in lens]
    assume(len(d1) == l1 and len(d2) == l2 and len(d3) == l3)
    with untraced():
        env = T.Env(pure=True)
        base = env.mappingstorage()
        ts = CONN.TmpStore(base)
    o1, o2 = T.oid(1), T.oid(2)
    ts.store(o1, None, d1, '', None)
    state = (ts.position, ts.index.copy(), ts.creating.copy())
    ts.store(o2, T.oid(9), d2, '', None)
    ts.store(o1, None, d3, '', None)
    check(ts.load(o1)[0] == d3 and ts.load(o2) == (d2, T.oid(9)), 'TmpStore.load does not return what was stored')
    for i in range(2):
        ts.reset(*state)
        check(ts.load(o1)[0] == d1, 'after reset the pre-savepoint data is not returned', i)
        check(o2 not in ts.index, 'data stored after the savepoint survives the reset', i)
        ts.store(o2, None, d3, '', None)          # goes on after the rollback
        check(ts.load(o2)[0] == d3, 'store after reset broken', i)
        check(state[1].get(o2) is None, 'reset handed out the savepoint\'s own index: later stores corrupt the savepoint', i)
    ts.close()
    reached()


def h_pclass(extra_sp: bool, touch: bool, k: int, second: bool, storage: str) -> None:
    """Objects that cannot be ghosts - persistent classes (ZODB.persistentclass), which re-read their state at the
    moment they are invalidated - next to an ordinary object: change, S1, change, [S2], [change], rollback to a
    solver-chosen savepoint, [second rollback to the same one], commit: both show exactly the savepoint's state, and
    that is what the commit stores."""
    nsp = 2 if extra_sp else 1
    target = choose(k, nsp)
    with untraced():
        import transaction
        import ZODB
        from ZODB.persistentclass import PersistentMetaClass
        from zverif import pobj
        env = T.Env()
        s = env.filestorage() if storage == 'file' else env.mappingstorage()
        db = ZODB.DB(s)
        tm = transaction.TransactionManager()
        c = db.open(tm)
        Cls = PersistentMetaClass('Cls', (object,), {'x': 0})
        c.root()['cls'] = Cls
        c.root()['obj'] = pobj.PObj(v=0)
        tm.commit()
        ob = c.root()['obj']
        val = [0]

        def change():
            val[0] += 1
            Cls.x = val[0]
            ob.v = val[0]
        sps, at = [], []
        change()
        sps.append(tm.savepoint())
        at.append(val[0])
        change()
        if extra_sp:
            sps.append(tm.savepoint())
            at.append(val[0])
            if touch:
                change()
        want = at[target]
        sps[target].rollback()
        check(ob.v == want, 'ordinary object does not show the savepoint state after rollback', ob.v, want)
        check(Cls.x == want, 'persistent class does not show the savepoint state after rollback', Cls.x, want)
        if second:
            change()
            sps[target].rollback()
            check(ob.v == want and Cls.x == want, 'second rollback to the same savepoint does not restore its state', ob.v, Cls.x, want)
        tm.commit()
        tm2 = transaction.TransactionManager()
        c2 = db.open(tm2)
        check(c2.root()['obj'].v == want, 'commit after a rollback stored another state of the ordinary object', c2.root()['obj'].v, want)
        check(c2.root()['cls'].x == want, 'commit after a rollback stored another state of the persistent class', c2.root()['cls'].x, want)
        c2.close()
        c.close()
        db.close()
    reached()


from zverif.harness.c13 import h_directed_sp as _blob_sp, h_fault as _blob_fault  # noqa: E402

HARNESSES = [
    Harness('program', h_program,
            decides='after every step of any program over modify/add/savepoint/rollback(k)/commit/abort the connection shows exactly '
                    'the model state (snapshot per savepoint, un-added objects disowned), other connections see only committed '
                    'data, and nothing is left behind after commit/abort',
            symbolic='n step codes over 12 (operation, operand) combinations: modify(0|1|2), add, add explicitly, savepoint, rollback(0|1|2), commit, abort, another connection committing a conflicting change',
            bounds='program length n per shard (quick 3 and 4; thorough up to 6), starting from 2 committed objects',
            oracle='pure-Python savepoint model (zverif/progs.py)',
            code=['Connection.savepoint/_rollback_savepoint/_commit_savepoint/_abort_savepoint/_invalidate_creating', 'TmpStore.*',
                  'Connection.commit/abort/add'],
            quick=dict(timeout=200, shards=shards(n=[3], storage=['file'], first=['any']) + shards(n=[4], storage=['file'], first=CODES[:5] + CODES[8:])),
            thorough=dict(timeout=3000, shards=shards(n=[3, 4], storage=['file', 'mapping'], first=['any'])
                          + shards(n=[5, 6], storage=['file'], first=CODES[:5] + CODES[8:]))),
    Harness('directed', h_directed,
            decides='the family "op, S, op, [S], R(k), op, S, R(k\')" from the property text: repeated rollbacks to the same '
                    'savepoint and rollbacks after further savepoints restore exactly the savepoint state',
            symbolic='3 operations (modify/add/add explicitly/nothing), 2 rollback targets, optional extra savepoint',
            bounds='programs of 6-8 steps of this shape', oracle='pure-Python savepoint model',
            code=['Connection._rollback_savepoint', 'TmpStore.reset', 'Connection._invalidate_creating'],
            quick=dict(timeout=150, shards=shards(storage=['file'])),
            thorough=dict(timeout=600, shards=shards(storage=['file', 'mapping', 'demo']))),
    Harness('pclass', h_pclass,
            decides='persistent classes (objects that cannot be ghosts and re-read their state when invalidated) and an ordinary object: '
                    'after a rollback to any savepoint - also after a further savepoint and later changes, also repeated - both show the '
                    'savepoint state and the commit stores it',
            symbolic='3 booleans (further savepoint / change after it / second rollback), rollback target',
            bounds='1 persistent class + 1 object, <= 2 savepoints', oracle='value recorded at the savepoint',
            code=['Connection._rollback_savepoint', 'TmpStore.reset', 'persistentclass.PersistentMetaClass._p_invalidate'],
            quick=dict(timeout=60, shards=shards(storage=['file', 'mapping'])),
            thorough=dict(timeout=120, shards=shards(storage=['file', 'mapping']))),
    Harness('tmpstore', h_tmpstore,
            decides='TmpStore.store/load/reset with arbitrary payload bytes: reset restores exactly the savepoint contents, repeatedly',
            symbolic='3 payloads (symbolic bytes; lengths fixed per shard)', bounds='2 oids, 2 resets', oracle='stored bytes',
            code=['TmpStore.store', 'TmpStore.load', 'TmpStore.reset'],
            quick=dict(timeout=100, shards=shards(lens=['012', '333', '504'])),
            thorough=dict(timeout=300, shards=shards(lens=['012', '333', '504', '666', '160']))),
    Harness('blob_savepoints', _blob_sp,
            decides='blob writes around savepoints: after rolling back to the first savepoint (also with a later one in between) the blob '
                    'reads the savepoint bytes; commit stores exactly the final bytes, abort discards all (C13 directed_sp)',
            symbolic='3 write selectors, optional second savepoint, commit or abort', bounds='programs of 4-7 steps of this shape; real scratch directory',
            oracle='blob model', code=['TmpStore.storeBlob/loadBlob/reset', 'Connection._rollback_savepoint'],
            quick=dict(timeout=150, shards=shards(kind=['file'])), thorough=dict(timeout=300, shards=shards(kind=['file', 'mapping', 'proxy']))),
    Harness('blob_savepoint_fault', _blob_fault,
            decides='a commit (also one that replays savepoint data) during which one file-system operation or one store fails leaves nothing '
                    'of the transaction behind - no savepoint files either - and the next transaction commits normally (C13 fault)',
            symbolic='2 step codes (7 blob operations incl. savepoint), f = index of the failing operation', bounds='one fault per commit',
            oracle='blob model + directory listing', code=['Connection._commit_savepoint (TmpStore.close)', 'TmpStore'],
            quick=dict(timeout=200, shards=shards(kind=['file'], other=[False])), thorough=dict(timeout=900, shards=shards(kind=['file'], other=[False, True]))),
]

MANIFEST = dict(
    text='Bounded solver-driven program exploration against the real Connection/TmpStore: op-codes and operands are solver '
         'variables, the path tree over programs of the stated length is exhausted (z3 certifies that no program inside the '
         'bound was skipped), and a per-savepoint snapshot model is compared after every step; the directed family from the '
         'property text reaches the 7-step shapes that the general bound does not.  TmpStore is additionally executed with '
         'symbolic payload bytes.',
    note='object values concrete (no data generalisation across the pickle boundary); program length bounded; blob savepoint data via the two C13 harnesses registered here (real scratch directory).',
    design_ref='DESIGN.md section 4, C12',
)
