"""C04 - the storage answers every revision query from the committed history.

H-ARG: a concrete history template is built through the real storage API (native speed,
untraced); the query arguments - oid, tid / serial / before bound, sizes, iterator range,
clock readings - are symbolic; the real query code is executed by CrossHair and compared
with the RevStore model evaluated on the same symbolic values.
"""
import sys

import ZODB.FileStorage  # noqa: F401
import ZODB.MappingStorage  # noqa: F401

from zverif import battery as B
from zverif import templates as T
from zverif.api import assume, check, fail, reached, untraced, choose, note
from zverif.spec import Harness, shards
from zverif.symenv import codec

codec.install()

ASSUMPTIONS = [
    'history templates T1-T6,T10 (zverif/templates.py) stand for "all histories": <= 6 transactions, <= 4 oids',
    'in-memory file layer (zverif.symenv.vfs) replaces the OS; validated against real files at start-up',
    'scripted, strictly increasing clock while templates are built; the tid-monotonicity harness uses a symbolic clock '
    'and the documented contract of persistent.TimeStamp (raw order, laterThan) instead of its calendar arithmetic',
    'FileIterator._skip_to_start chooses its scan direction from TimeStamp.timeTime() differences; in the iterator '
    'harnesses timeTime() is the raw timestamp integer (same order; same direction as calendar seconds whenever the '
    'candidate tids share a minute, as in all templates, up to float rounding at exact midpoints)',
    'pure-Python BTrees/persistent (PURE_PYTHON=1) during symbolic execution; counterexamples replayed with C extensions',
]


def _oid_shape(o, shape):
    assume(len(o) == 8)
    if shape == 'low1':
        assume(o[:7] == b'\0' * 7)
    elif shape == 'mid3':
        assume(o[:5] == b'\0' * 5)


def _build(template, storage, reopen):
    """-> (storage, model). reopen: 0 = same instance, 1 = close+reopen with index, 2 = reopen without index."""
    if storage == 'file':
        env, s, h = T.build_file(template)
        if reopen:
            s.close()
            if reopen == 2:
                env.fs.os.remove('/db/Data.fs.index')
            s = env.filestorage()
    else:
        env, s, h = T.build_mapping(template)
    return s, h.m


def h_load_before(o: bytes, tid: bytes, template: str, storage: str, reopen: int, oshape: str) -> None:
    _oid_shape(o, oshape)
    assume(len(tid) == 8)
    with untraced():
        s, m = _build(template, storage, reopen)
    B.q_load_before(s, m, o, tid)
    reached()


def h_load_serial(o: bytes, tid: bytes, template: str, storage: str, reopen: int, oshape: str) -> None:
    _oid_shape(o, oshape)
    assume(len(tid) == 8)
    with untraced():
        s, m = _build(template, storage, reopen)
    B.q_load_serial(s, m, o, tid)
    reached()


def h_load(o: bytes, template: str, storage: str, reopen: int, oshape: str) -> None:
    _oid_shape(o, oshape)
    with untraced():
        s, m = _build(template, storage, reopen)
    B.q_load(s, m, o)
    if hasattr(s, 'getTid'):
        B.q_get_tid(s, m, o)
    B.q_last(s, m)
    reached()


def h_history(o: bytes, size: int, template: str, storage: str, reopen: int, oshape: str) -> None:
    _oid_shape(o, oshape)
    assume(0 <= size <= 10)
    with untraced():
        s, m = _build(template, storage, reopen)
    B.q_history(s, m, o, size)
    reached()


def h_undo_log(first: int, last: int, template: str, reopen: int) -> None:
    assume(0 <= first <= 8 and -8 <= last <= 8)
    with untraced():
        s, m = _build(template, 'file', reopen)
    B.q_undo_log(s, m, first, last)
    reached()


def h_iterator(start: bytes, stop: bytes, use_start: bool, use_stop: bool, template: str, storage: str, reopen: int) -> None:
    assume(len(start) == 8 and len(stop) == 8)
    F = sys.modules['ZODB.FileStorage.FileStorage']
    with untraced():
        s, m = _build(template, storage, reopen)
        real_ts = F.TimeStamp
        # _skip_to_start picks its scan direction from TimeStamp(tid).timeTime() differences; evaluated on
        # the raw timestamp integers here (see ASSUMPTIONS) - the calendar arithmetic is not ZODB code
        F.TimeStamp = SymTimeStamp
    try:
        B.q_iterator(s, m, start if use_start else None, stop if use_stop else None,
                     data_txn=(storage == 'file'), dedupe=(storage != 'file'))
    finally:
        F.TimeStamp = real_ts
    reached()


def h_iterator_inflight(start: bytes, template: str) -> None:
    """Iteration from `start` while another transaction has voted but not finished: the
    in-progress transaction is not listed, everything committed from `start` on is."""
    assume(len(start) == 8)
    F = sys.modules['ZODB.FileStorage.FileStorage']
    with untraced():
        env, s, h = T.build_file(template)
        t = T.meta(b'inflight')
        s.tpc_begin(t)
        s.store(T.oid(1), h.serial[T.oid(1)], b'in-flight', '', t)
        s.tpc_vote(t)
        real_ts = F.TimeStamp
        F.TimeStamp = SymTimeStamp
    try:
        B.q_iterator(s, h.m, start, None)
    finally:
        F.TimeStamp = real_ts
        with untraced():
            s.tpc_abort(t)
    reached()


def h_iterator_torn(start: bytes, cut: int, sel: int, template: str, mode: str) -> None:
    """A data file whose tail is a partially written transaction (any byte-prefix of it), opened
    read-only: iterator(start) lists exactly the complete transactions from `start` on.
    mode 'cut': the cut is symbolic, start is one of the history's boundary tids (symbolic selector);
    mode 'start': start is 8 free bytes, the cut is one of 4 representative positions (selector)."""
    assume(len(start) == 8)
    F = sys.modules['ZODB.FileStorage.FileStorage']
    with untraced():
        env, s, h = T.build_file(template)
        base = len(env.fs.content('/db/Data.fs'))
        t = T.meta(b'torn', b'x' * 9)
        s.tpc_begin(t)
        s.store(T.oid(1), h.serial[T.oid(1)], b'never-committed', '', t)
        s.tpc_vote(t)
        full = bytes(env.fs.content('/db/Data.fs'))
        torn_tid = s._tid
        s.tpc_abort(t)
        s.close()
        env.fs.os.remove('/db/Data.fs.index')
        starts = [h.m.txns[0].tid, h.m.txns[1].tid, h.m.txns[-1].tid, torn_tid,
                  (int.from_bytes(torn_tid, 'big') + 1).to_bytes(8, 'big')]
        cuts = [base + 23, base + 23 + 15, base + 23 + 13 + 42 + 3, len(full) - 9, len(full) - 1]
    # a tail shorter than one transaction header is reported by FileIterator as CorruptedDataError by design
    if mode == 'cut':
        assume(base + 23 <= cut < len(full))
        start = starts[choose(sel, len(starts))]
    else:
        cut = cuts[choose(sel, len(cuts))]
    env.fs.put('/db/Data.fs', full, symsize=cut)
    s2 = env.filestorage(read_only=True)
    with untraced():
        real_ts = F.TimeStamp
        F.TimeStamp = SymTimeStamp
    try:
        B.q_iterator(s2, h.m, start, None)
        B.q_last(s2, h.m)
    finally:
        F.TimeStamp = real_ts
    reached()


def h_record_iternext(template: str, reopen: int, k: int) -> None:
    """record_iternext walks every current object exactly once, in oid order (concrete walk; the
    cursor it is resumed from is chosen symbolically)."""
    with untraced():
        s, m = _build(template, 'file', reopen)
        got, want = B.q_record_iternext(s, m)
    check(got == want, 'record_iternext walk differs', got, want)
    assume(0 <= k < len(want))
    # resume from an arbitrary cursor
    oid, tid, data, nxt = s.record_iternext(want[k][0])
    check((oid, tid, data) == want[k], 'record_iternext(cursor) differs', k)
    check(nxt == (want[k + 1][0] if k + 1 < len(want) else None), 'record_iternext next cursor differs', k, nxt)
    reached()


# ---------------------------------------------------------------------------
# tid monotonicity under an arbitrary clock

class _Now:
    """Opaque clock reading carrying a symbolic integer (raw 64-bit timestamp value)."""

    def __init__(self, raw):
        self.raw = raw

    def __mod__(self, k):
        return self


class SymTimeStamp:
    """Contract of persistent.TimeStamp on raw integers: total order by raw value, raw() is the
    8-byte big-endian encoding, laterThan(o) = self if self > o else the successor of o."""

    def __init__(self, *a):
        if len(a) == 1:
            v = a[0]
            self._raw = v if isinstance(v, int) else int.from_bytes(v, 'big')
        else:
            self._raw = a[-1].raw

    def raw(self):
        return _Tid(self._raw)

    def laterThan(self, o):
        return self if self._raw > o._raw else SymTimeStamp(o._raw + 1)

    def __lt__(s, o):
        return s._raw < o._raw

    def __le__(s, o):
        return s._raw <= o._raw

    def __gt__(s, o):
        return s._raw > o._raw

    def __ge__(s, o):
        return s._raw >= o._raw

    def __eq__(s, o):
        return s._raw == o._raw

    def __hash__(self):
        return 0

    def timeTime(self):
        return self._raw


class _Tid(bytes):
    """8-byte tid that remembers the integer it encodes (avoids unpack(pack(x)) terms)."""

    def __new__(cls, n):
        self = bytes.__new__(cls, b'\0' * 8)
        self.n = n
        return self


class _SymClock:
    def __init__(self, vals):
        self.vals = list(vals)

    def time(self):
        return _Now(self.vals.pop(0))

    def gmtime(self, t=None):
        return (0, 0, 0, 0, 0, 0, 0, 0, 0)

    def __getattr__(self, n):
        import time
        return getattr(time, n)


def h_tid_monotonic(c0: int, c1: int, c2: int, c3: int, c4: int, storage: str, reopen: bool, form: int = 0) -> None:
    """Consecutive tpc_begin()s under arbitrary clock readings choose strictly increasing tids, all
    later than the last committed one - also right after a close and reopen (c0 is the clock reading
    the reopening storage sees).  form: how the caller spells "no id given" - tpc_begin(t), (t, None),
    (t, None, ' ') or (t, tid=None): the documented signature has tid=None as its default."""
    for c in (c0, c1, c2, c3, c4):
        assume(0 <= c < 2 ** 63)
    import ZODB.BaseStorage as BS
    F = sys.modules['ZODB.FileStorage.FileStorage']
    with untraced():
        if storage == 'file':
            env, s, h = T.build_file('T1')
            last = int.from_bytes(h.m.last_tid(), 'big')
        elif storage == 'mapping_packed':
            # the newest transaction wrote only an object that is garbage, and a pack removed it
            from zverif import graph as GR_
            from ZODB.serialize import referencesf
            env = T.Env()
            g_ = GR_.G(env, storage=env.mappingstorage()).build('G0')
            x = g_.PM()
            g_.c.root()['x'] = x
            g_.commit('link x')
            del g_.c.root()['x']
            g_.commit('unlink x')
            x['late'] = 1
            g_.commit('write to the unreachable x')
            s = g_.s
            last = int.from_bytes(s.lastTransaction(), 'big')
            s.pack(env.clock.time(), referencesf)
            check(int.from_bytes(s.lastTransaction(), 'big') == last, 'lastTransaction changed by a pack')
        elif storage == 'demo':
            # a demo storage over a base that holds the history: new ids have to come after the base's, too
            import ZODB.DemoStorage
            env, base_, h = T.build_mapping('T1')
            last = int.from_bytes(h.m.last_tid(), 'big')
            s = ZODB.DemoStorage.DemoStorage(base=base_)
        else:
            env, s, h = T.build_mapping('T1')
            last = int.from_bytes(h.m.last_tid(), 'big')
        saved = {}
        import ZODB.MappingStorage as MS
        import ZODB.utils as ZU
        mods = (BS, F, MS, ZU)
        for mod in mods:
            for name in ('time', 'TimeStamp'):
                if name in mod.__dict__:
                    saved[(mod, name)] = mod.__dict__[name]
        clk = _SymClock([])
        for mod in mods:
            if 'time' in mod.__dict__:
                mod.time = clk
            if 'TimeStamp' in mod.__dict__:
                mod.TimeStamp = SymTimeStamp
        if reopen:
            s.close()
    try:
        if reopen:
            clk.vals = [c0, c0, c0, c0]      # every clock read during the open sees the same instant
            s = env.filestorage()           # traced: __init__ derives the floor for new ids from the file
        elif hasattr(s, '_ts'):
            assume(c0 == 0)
            s._ts = SymTimeStamp(last)
        else:
            assume(c0 == 0)
        clk.vals = [c1, c2, c3, c4]
        prev = last
        fk = choose(form, 4)
        for i in range(4):
            t = T.meta()
            if fk == 0:
                s.tpc_begin(t)
            elif fk == 1:
                s.tpc_begin(t, None)
            elif fk == 2:
                s.tpc_begin(t, None, ' ')
            else:
                s.tpc_begin(t, tid=None)
            if storage == 'demo':
                cur = s.changes._tid.n
            else:
                cur = s._ts._raw if hasattr(s, '_ts') and isinstance(s._ts, SymTimeStamp) else s._tid.n
            check(cur > prev, 'transaction id does not increase', i, prev, cur)
            if storage == 'file':
                # BaseStorage keeps the chosen timestamp as the new floor (as a commit would)
                prev = cur
            # MappingStorage derives the floor from the committed transactions only: each attempt is
            # compared with the last committed id (an aborted attempt's id may legitimately be reused)
            s.tpc_abort(t)
    finally:
        with untraced():
            for (mod, name), v in saved.items():
                setattr(mod, name, v)
    reached()


from zverif.harness.c05 import h_abort_reader as _abort_reader  # noqa: E402  (loads never return bytes of a transaction that did not commit)
from zverif.harness.c16 import h_load_before as _demo_load_before  # noqa: E402  (DemoStorage is one of the bundled storages)

_FILE_Q = ['T1', 'T2', 'T4', 'T6']
_FILE_ALL = ['T1', 'T2', 'T3', 'T4', 'T5', 'T5C', 'T6', 'T10', 'T3E', 'TBIG', 'TS', 'TX']

HARNESSES = [
    Harness('load_before', h_load_before,
            decides='loadBefore(oid, tid) returns the bytes, revision id and next revision id the history dictates',
            symbolic='oid (8 bytes; shard oshape: low1 = last byte free, mid3 = last 3 bytes free, full = all free), '
                     'tid (8 free bytes)',
            bounds='templates per shard; reopen 0/1/2 = same instance / reopened with index / reopened, index rebuilt',
            oracle='RevStore.load_before', pure_python=True,
            code=['FileStorage.loadBefore', '_lookup_pos', '_read_data_header', '_loadBack_impl', 'fsIndex.__getitem__',
                  'MappingStorage.loadBefore'],
            quick=dict(timeout=100, shards=shards(template=_FILE_Q, storage=['file'], reopen=[0], oshape=['low1'])
                       + shards(template=['T2'], storage=['file'], reopen=[2], oshape=['mid3'])
                       + shards(template=['T1', 'T2'], storage=['mapping'], reopen=[0], oshape=['low1'])),
            thorough=dict(timeout=600, shards=shards(template=_FILE_ALL, storage=['file'], reopen=[0, 1, 2], oshape=['low1', 'full'])
                          + shards(template=['T1', 'T2', 'T3'], storage=['mapping'], reopen=[0], oshape=['low1', 'full']))),
    Harness('load_serial', h_load_serial,
            decides='loadSerial(oid, serial) returns exactly the bytes that transaction stored, else a key error',
            symbolic='oid (shape), serial (8 free bytes)', bounds='as load_before', oracle='RevStore.load_serial',
            pure_python=True, code=['FileStorage.loadSerial', 'MappingStorage.loadSerial'],
            quick=dict(timeout=100, shards=shards(template=['T2', 'T4', 'T6'], storage=['file'], reopen=[0], oshape=['low1'])
                       + shards(template=['T1'], storage=['mapping'], reopen=[0], oshape=['low1'])),
            thorough=dict(timeout=600, shards=shards(template=_FILE_ALL, storage=['file'], reopen=[0, 2], oshape=['low1', 'full'])
                          + shards(template=['T1', 'T2', 'T3'], storage=['mapping'], reopen=[0], oshape=['low1']))),
    Harness('load', h_load,
            decides='load/getTid/lastTransaction agree with the newest revision in the history',
            symbolic='oid (shape)', bounds='as load_before', oracle='RevStore.load / last_tid', pure_python=True,
            code=['FileStorage.load', 'getTid', 'lastTransaction', 'MappingStorage.load'],
            quick=dict(timeout=80, shards=shards(template=['T2', 'T4', 'T5', 'T6', 'T3E'], storage=['file'], reopen=[1], oshape=['mid3'])),
            thorough=dict(timeout=600, shards=shards(template=_FILE_ALL, storage=['file'], reopen=[0, 1, 2], oshape=['mid3', 'full'])
                          + shards(template=['T1', 'T2', 'T3'], storage=['mapping'], reopen=[0], oshape=['mid3']))),
    Harness('history', h_history,
            decides='history(oid, size) lists the newest `size` revisions with their transaction metadata',
            symbolic='oid (shape), size (0..10)', bounds='as load_before', oracle='RevStore.history', pure_python=True,
            code=['FileStorage.history'],
            quick=dict(timeout=80, shards=shards(template=['T3', 'T4', 'TX'], storage=['file'], reopen=[0], oshape=['low1'])),
            thorough=dict(timeout=600, shards=shards(template=_FILE_ALL, storage=['file'], reopen=[0, 2], oshape=['low1']))),
    Harness('undo_log', h_undo_log,
            decides='undoLog(first, last) lists the same transactions and metadata as the history, newest first',
            symbolic='first (0..8), last (-8..8)', bounds='templates per shard', oracle='RevStore.undo_log',
            code=['FileStorage.undoLog', 'UndoSearch'],
            quick=dict(timeout=80, shards=shards(template=['T3', 'T4', 'T5C', 'TBIG', 'TS', 'TX'], reopen=[0])),
            thorough=dict(timeout=600, shards=shards(template=_FILE_ALL, reopen=[0, 1]))),
    Harness('iterator', h_iterator,
            decides='iterator(start, stop) yields exactly the transactions in range with their records and metadata',
            symbolic='start, stop (8 free bytes each); which bounds are given is a shard',
            bounds='templates per shard', oracle='RevStore.iterate', pure_python=True,
            code=['FileIterator.__init__', '_skip_to_start', '_scan_forward', '_scan_backward', '__next__',
                  'TransactionRecordIterator.__next__', 'MappingStorage.iterator'],
            quick=dict(timeout=120, shards=shards(template=['T3', 'T4', 'T5C', 'TBIG'], storage=['file'], reopen=[0], use_start=[True], use_stop=[False])
                       + shards(template=['T4'], storage=['file'], reopen=[0], use_start=[False], use_stop=[True])
                       + shards(template=['T2'], storage=['mapping'], reopen=[0], use_start=[False], use_stop=[True])
                       + shards(template=['T2'], storage=['mapping'], reopen=[0], use_start=[True], use_stop=[False])),
            thorough=dict(timeout=900, shards=shards(template=_FILE_ALL, storage=['file'], reopen=[0, 1], use_start=[True, False], use_stop=[True, False])
                          + shards(template=['T1', 'T2', 'T3'], storage=['mapping'], reopen=[0], use_start=[True, False], use_stop=[True, False]))),
    Harness('iterator_inflight', h_iterator_inflight,
            decides='iterating from any start while a transaction is between vote and finish lists the committed '
                    'transactions from start on and not the unfinished one',
            symbolic='start (8 free bytes)', bounds='templates T1, T4 plus one voted transaction', oracle='RevStore.iterate',
            code=['FileIterator._skip_to_start', '__next__'],
            quick=dict(timeout=80, shards=shards(template=['T1'])),
            thorough=dict(timeout=300, shards=shards(template=['T1', 'T4', 'T3']))),
    Harness('iterator_torn', h_iterator_torn,
            decides='read-only open of a file ending in any byte-prefix of an unfinished transaction: '
                    'iterator(start) lists exactly the complete transactions from start on',
            symbolic='mode cut: length of the torn tail symbolic (file length over concrete content), start a symbolic selector over 5 boundary tids; mode start: start 8 free bytes, cut a selector over 5 positions',
            bounds='template + one voted transaction of ~100 bytes; torn tail holds at least the 23-byte header (a shorter tail is reported as CorruptedDataError by design, outside the claim)', oracle='RevStore.iterate',
            code=['FileStorage.__init__ (read_only)', 'read_index', 'FileIterator._skip_to_start', '_scan_forward', '__next__'],
            quick=dict(timeout=120, shards=shards(template=['T1'], mode=['cut', 'start'])),
            thorough=dict(timeout=600, shards=shards(template=['T1', 'T3', 'T4'], mode=['cut', 'start']))),
    Harness('record_iternext', h_record_iternext,
            decides='record_iternext enumerates every current object once in oid order from any cursor',
            symbolic='cursor index', bounds='templates per shard', oracle='RevStore.current',
            code=['FileStorage.record_iternext', 'fsIndex.minKey'],
            quick=dict(timeout=60, shards=shards(template=['T2', 'T6'], reopen=[0])),
            thorough=dict(timeout=300, shards=shards(template=_FILE_ALL, reopen=[0, 2]))),
    Harness('demo_load_before', _demo_load_before,
            decides='loadBefore on a DemoStorage (changes over base) answers from the joined history of both layers',
            symbolic='oid (last byte free), tid (8 free bytes)', bounds='see C16 (same harness): 2 layers, 5 transactions',
            oracle='RevStore over both layers', pure_python=True, code=['DemoStorage.loadBefore'],
            quick=dict(timeout=150, shards=[dict(base_kind='mapping', changes_kind='file', depth=1)]),
            thorough=dict(timeout=600, shards=[dict(base_kind='mapping', changes_kind='file', depth=1),
                                               dict(base_kind='file', changes_kind='mapping', depth=2)])),
    Harness('abort_reader', _abort_reader,
            decides='a load through a pooled, buffered reader handle at any point while a transaction votes and is aborted and the next one '
                    'commits at the same file position returns the bytes of a committed revision, never those of the aborted one (same harness as C05 / C02)',
            symbolic='injection point of the load over lock operations, file-system calls and API boundaries', bounds='template T1; 1 injected load',
            oracle='committed revisions', code=['FileStorage._abort (_files.flush)', 'FilePool', 'FileStorage.load/loadBefore'],
            quick=dict(timeout=120, shards=shards(template=['T1'])), thorough=dict(timeout=300, shards=shards(template=['T1', 'T2']))),
    Harness('tid_monotonic', h_tid_monotonic,
            decides='transaction ids strictly increase whatever the clock returns (stalls, steps back)',
            symbolic='the clock reading at reopen and 4 consecutive clock readings (free 63-bit integers); for the demo storage the spelling of the call (4 forms)',
            bounds='4 consecutive tpc_begin after history T1, with and without close+reopen before', oracle='strict increase, above the last committed tid',
            code=['BaseStorage.tpc_begin', 'MappingStorage.tpc_begin', 'FileStorage.__init__ (tid floor)', 'utils.newTid'],
            quick=dict(timeout=80, shards=[dict(storage='file', reopen=False, form=0), dict(storage='file', reopen=True, form=0), dict(storage='mapping', reopen=False, form=0), dict(storage='mapping_packed', reopen=False, form=0), dict(storage='demo', reopen=False, form=0), dict(storage='demo', reopen=False)]),
            thorough=dict(timeout=300, shards=[dict(storage='file', reopen=False, form=0), dict(storage='file', reopen=True, form=0), dict(storage='mapping', reopen=False, form=0), dict(storage='mapping_packed', reopen=False, form=0), dict(storage='demo', reopen=False, form=0), dict(storage='demo', reopen=False)])),
]

MANIFEST = dict(
    text='Bounded symbolic execution of the real query code (load, loadSerial, loadBefore, getTid, lastTransaction, '
         'history, undoLog, iterator, record_iternext) of FileStorage and MappingStorage against a list-of-transactions '
         'model, with oid / tid / serial / range / size arguments symbolic (8 free bytes for tids), over a catalogue of '
         'history templates and before/after reopen; tid generation is executed with 4 symbolic clock readings. '
         'Where the path tree is exhausted the answer is right for every argument value, e.g. every tid boundary.',
    note='histories are the template catalogue (<= 6 transactions); oid shapes per shard; TimeStamp calendar arithmetic '
         'replaced by its ordering contract in the monotonicity harness; pure-Python BTrees during symbolic execution.',
    design_ref='DESIGN.md section 4, C04',
)
