"""C05 - a transaction that does not finish leaves no trace and blocks no one.

H-FAULT: the index f of the failing low-level operation (and the length of a preceding short
write) are symbolic; the real storage code runs at native speed and only the fault decision is
decided by the solver, so z3 certifies that every operation index up to the end of vote has
been tried.  H-ARG: abort phase, wrong-transaction call selector, quota value and metadata
lengths are symbolic.  After the failed/aborted attempt the harness requires: data file
byte-identical to the pre-state, every revision query answered as before, commit lock free,
a following transaction commits, and a reopen shows exactly the committed history.
"""
import sys

import ZODB.FileStorage  # noqa: F401
import ZODB.DemoStorage
import ZODB.MappingStorage

F = sys.modules['ZODB.FileStorage.FileStorage']

from zverif import battery as B  # noqa: E402
from zverif import templates as T
from zverif.api import assume, check, fail, reached, untraced, choose, realize, note, decide, traced
from zverif.spec import Harness, shards
from zverif.symenv import codec, vfs, locks

codec.install()
DATA = '/db/Data.fs'

ASSUMPTIONS = [
    'one injected fault per run: the f-th mutating low-level operation (OS-level write/truncate/fsync/create/rename '
    'on any file of the storage, temporary file included) fails with ENOSPC; optionally the operation before it is a '
    'short write of symbolic length (write(2) semantics: partial count, then the error)',
    'faults are injected from tpc_begin up to the return of tpc_vote (failures inside tpc_finish are outside C05: the '
    'storage documents that it closes itself)',
    'real io.Buffered* objects sit between FileStorage and the raw in-memory file, so retry/flush behaviour after a '
    'failed write is CPython\'s own',
    'history templates T1, T2, T4; the failing transaction stores 1-3 records',
]


def _lock_free(lock):
    if lock.acquire(False):
        lock.release()
        return True
    return False


def _undoable(s):
    # a demo storage's undo log is that of its changes layer only; the model lists both layers
    return hasattr(s, 'undoLog') and not isinstance(s, ZODB.DemoStorage.DemoStorage)


def _locks(s):
    out = [s._commit_lock]
    ch = getattr(s, 'changes', None)
    if ch is not None:
        out.append(ch._commit_lock)
    return out


def _state(env, s, m, pre_bytes, what):
    """Storage shows exactly the pre-transaction state, in memory and on disk."""
    for L in _locks(s):
        check(_lock_free(L), 'commit lock still held after ' + what)
    check(s.tpc_transaction() is None, 'storage still inside a transaction after ' + what)
    if pre_bytes is not None:
        f = getattr(s, '_file', None) or getattr(getattr(s, 'changes', None), '_file', None)
        if f is not None:
            f.flush()
        now = bytes(env.fs.content(DATA))
        check(now == pre_bytes, 'data file differs from the pre-transaction state after ' + what,
              len(now), len(pre_bytes), now[len(pre_bytes) - 8:len(pre_bytes) + 40] if len(now) != len(pre_bytes) else '')
    B.full_battery(s, m, data_txn=(pre_bytes is not None), undo_log=_undoable(s),
                   iterator=not isinstance(s, ZODB.DemoStorage.DemoStorage))


def _follow_up(env, s, h, reopen=True):
    """The next transaction begins and commits normally; reopening shows exactly the history."""
    for L in _locks(s):
        if not _lock_free(L):
            fail('next transaction would block: commit lock held')
    h.commit([(T.oid(1), b'next-1'), (T.oid(42), b'next-new')], b'next', b'txn')
    B.full_battery(s, h.m, data_txn=hasattr(s, '_file'), undo_log=_undoable(s),
                   iterator=not isinstance(s, ZODB.DemoStorage.DemoStorage))
    if reopen and hasattr(s, '_file'):
        s.close()
        s2 = env.filestorage()
        B.full_battery(s2, h.m)
        s2.close()


RECS = [(T.oid(1), b'x' * 30), (T.oid(2), b'y' * 5), (T.oid(50), b'brand-new-object')]


def h_fault(f: int, short: int, use_short: bool, template: str, nrec: int) -> None:
    """The f-th low-level operation of begin/store*/vote fails."""
    assume(f >= 0)
    assume(0 <= short <= 120)
    with untraced():
        env, s, h = T.build_file(template)
        s._file.flush()
        pre = bytes(env.fs.content(DATA))
        fs = env.fs
    # arm: fail_at is symbolic (nops + f); the comparison in vfs._mutate is decided by the solver
    fs.fail_at = fs.nops + f
    fs.fail_partial = short if use_short else None
    fired = None
    with untraced():
        t = T.meta(b'u', b'failing')
        try:
            s.tpc_begin(t)
            for o, d in RECS[:nrec]:
                s.store(o, h.serial.get(o, T.Z64), d, '', t)
            s.tpc_vote(t)
        except OSError as ex:
            fired = ex
        nfault = len(fs.fault_log)
        fs.fail_at = None
        fs.fail_partial = None
        if fired is None:
            # f lies beyond the last operation of vote: nothing fired (a pending short write is harmless)
            assume(nfault == 0 or use_short)
            note('fired', 'none')
        else:
            note('fired', fs.fault_log[-1][1] + ':' + fs.fault_log[-1][2].split('/')[-1])
        # the transaction machinery reacts to the failure (or to another participant's failed vote) by aborting
        s.tpc_abort(t)
        _state(env, s, h.m, pre, 'abort following an I/O error' if fired else 'abort after vote')
        _follow_up(env, s, h)
    reached()


def h_copy_fault(f: int, template: str) -> None:
    """copyTransactionsFrom() drives a two-phase commit per copied transaction.  The f-th low-level operation on the
    destination fails: the destination is left outside any transaction with a free commit lock, holds exactly the
    transactions copied completely before, accepts the next commit, and reopens to that."""
    assume(f >= 0)
    with untraced():
        env, src, hs = T.build_file(template)
        dst = F.FileStorage('/db/Dest.fs')
        fs = env.fs
    fs.fail_at = fs.nops + f
    with untraced():
        failed = None
        phase = {}
        real_finish = dst.tpc_finish

        def finish(*a, **k):
            phase['finish'] = True
            r = real_finish(*a, **k)
            phase['finish'] = False
            return r
        dst.tpc_finish = finish
        try:
            dst.copyTransactionsFrom(src)
        except OSError as ex:
            failed = ex
        del dst.tpc_finish
        fired = bool(fs.fault_log)
        fs.fail_at = None
        assume(fired and failed is not None)
        assume(not phase.get('finish'))       # a failure inside tpc_finish itself: C01 finish_fault
        note('fired', fs.fault_log[-1][1] + ':' + fs.fault_log[-1][2].split('/')[-1])
        check(dst.tpc_transaction() is None, 'destination left inside the copied transaction after a failed copy')
        for L in _locks(dst):
            if not _lock_free(L):
                fail('commit lock of the destination left held after a failed copy')
        it = dst.iterator()
        got = [t_.tid for t_ in it]
        it.close()
        want = [t_.tid for t_ in hs.m.txns]
        check(got == want[:len(got)], 'destination holds something else than a prefix of the source after a failed copy')
        from zverif.model.revstore import RevStore
        pm = RevStore(hs.m.txns[:len(got)])
        B.full_battery(dst, pm)
        h2 = T.Hist(dst, pm.copy())
        for o in pm.oids():
            try:
                h2.serial[o] = pm.load(o)[1]
            except Exception:
                h2.serial[o] = pm.revs(o)[-1][0]
        h2.commit([(T.oid(77), b'after the failed copy')], b'next', b'txn')
        B.full_battery(dst, h2.m)
        dst.close()
        d2 = F.FileStorage('/db/Dest.fs')
        B.full_battery(d2, h2.m)
        d2.close()
        src.close()
    reached()


def _mk(storage):
    """-> (env, storage, Hist, pre_bytes|None)"""
    if storage == 'file':
        env, s, h = T.build_file('T1')
        s._file.flush()
        return env, s, h, bytes(env.fs.content(DATA))
    if storage == 'mapping':
        env, s, h = T.build_mapping('T1')
        return env, s, h, None
    if storage == 'demo_file':
        # base = mapping with T1 history, changes = FileStorage
        env, base, hb = T.build_mapping('T1')
        ch = env.filestorage()
        s = ZODB.DemoStorage.DemoStorage(base=base, changes=ch)
        h = T.Hist(s, hb.m.copy())
        h.serial = dict(hb.serial)
        h.commit([(T.oid(1), b'demo-change')])
        ch._file.flush()
        return env, s, h, bytes(env.fs.content(DATA))
    if storage == 'demo':
        env, base, hb = T.build_mapping('T1')
        s = ZODB.DemoStorage.DemoStorage(base=base)
        h = T.Hist(s, hb.m.copy())
        h.serial = dict(hb.serial)
        h.commit([(T.oid(1), b'demo-change')])
        return env, s, h, None
    raise ValueError(storage)


def h_abort_phase(phase: int, storage: str) -> None:
    """Abort after begin / after the k-th store / after vote; conflict during store; the callback that tpc_finish
    runs before the commit point raises (phase 6); then state unchanged."""
    with untraced():
        locks.install()            # strict lock stubs: waiting for a lock one holds oneself raises instead of hanging
        env, s, h, pre = _mk(storage)
    k = choose(phase, 7)
    with untraced():
        from ZODB.POSException import ConflictError
        t = T.meta(b'u', b'aborting')
        s.tpc_begin(t)
        if k >= 1:
            s.store(T.oid(1), h.serial[T.oid(1)], b'doomed-1', '', t)
        if k >= 2:
            s.store(T.oid(60), T.Z64, b'doomed-new', '', t)
        if k == 3:
            try:
                s.store(T.oid(2), T.Z64, b'stale write', '', t)      # wrong serial: conflict
                fail('store with a stale serial did not raise ConflictError')
            except ConflictError:
                pass
        if k >= 4:
            s.tpc_vote(t)
        if k == 5:
            s.tpc_abort(T.meta())          # abort by a stranger: ignored, transaction still in progress
            check(s.tpc_transaction() is t, 'tpc_abort with another transaction disturbed the current one')
        if k == 6:
            class Boom(Exception):
                pass

            def cb(tid):
                raise Boom('callback failed before the commit point')
            try:
                s.tpc_finish(t, cb)
                fail('tpc_finish swallowed the exception of its callback')
            except Boom:
                pass
        s.tpc_abort(t)
        _state(env, s, h.m, pre, 'abort in phase %d' % k)
        s.tpc_abort(t)                     # second abort is a no-op
        _state(env, s, h.m, pre, 'repeated abort')
        _follow_up(env, s, h)
    reached()


def h_wrong_txn(call: int, phase: int, storage: str) -> None:
    """Calls made with a transaction other than the one being committed are rejected without effect."""
    with untraced():
        env, s, h, pre = _mk(storage)
    c = choose(call, 5)
    ph = choose(phase, 3)
    with untraced():
        from ZODB.POSException import StorageTransactionError
        t = T.meta(b'u', b'current')
        other = T.meta(b'u', b'current')      # equal-looking but distinct object
        s.tpc_begin(t)
        if ph >= 1:
            s.store(T.oid(1), h.serial[T.oid(1)], b'pending', '', t)
        if ph >= 2:
            s.tpc_vote(t)
        try:
            if c == 0:
                s.store(T.oid(2), h.serial[T.oid(2)], b'intruder', '', other)
            elif c == 1:
                s.tpc_vote(other)
            elif c == 2:
                s.tpc_finish(other)
            elif c == 3:
                s.tpc_abort(other)
                raise StorageTransactionError('ignored')       # abort by a stranger is silently ignored
            elif c == 4:
                if hasattr(s, 'deleteObject'):
                    s.deleteObject(T.oid(2), h.serial[T.oid(2)], other)
                else:
                    raise StorageTransactionError('n/a')
            fail('call %d with a foreign transaction was accepted' % c)
        except StorageTransactionError:
            pass
        check(s.tpc_transaction() is t, 'foreign call disturbed the transaction in progress')
        # the real transaction is unaffected: it can still complete ...
        if ph < 1:
            s.store(T.oid(1), h.serial[T.oid(1)], b'pending', '', t)
        if ph < 2:
            s.tpc_vote(t)
        tid = s.tpc_finish(t)
        from zverif.model.revstore import MRec, MTxn
        h.m.add(MTxn(tid, [MRec(T.oid(1), b'pending')], b'u', b'current'))
        h.serial[T.oid(1)] = tid
        B.full_battery(s, h.m, data_txn=hasattr(s, '_file'), undo_log=_undoable(s),
                       iterator=not isinstance(s, ZODB.DemoStorage.DemoStorage))
    reached()


def h_quota(q: int, template: str) -> None:
    """Quota exceeded during store: the error is raised exactly when the record would end past the
    quota, and after the abort nothing has changed."""
    assume(0 <= q <= 2000)
    with untraced():
        env, s, h = T.build_file(template)
        s.close()
        from ZODB.FileStorage.FileStorage import FileStorageQuotaError
    s = env.filestorage(quota=q)
    h.s = s
    with untraced():
        s._file.flush()
        pre = bytes(env.fs.content(DATA))
    t = T.meta(b'u', b'quota')
    s.tpc_begin(t)
    raised = False
    try:
        for o, d in RECS:
            s.store(o, h.serial.get(o, T.Z64), d, '', t)
        s.tpc_vote(t)
    except FileStorageQuotaError:
        raised = True
    with untraced():
        note('raised', raised)
        s.tpc_abort(t)
        _state(env, s, h.m, pre, 'quota error' if raised else 'abort after vote')
        s._quota = None
        _follow_up(env, s, h)
    reached()


def h_metadata(lu: int, ld: int, le: int, storage: str) -> None:
    """Over-long transaction metadata: refused at begin, and afterwards nothing has changed and the
    next transaction can begin (lengths symbolic around the 16-bit limit)."""
    for n in (lu, ld, le):
        assume(0 <= n <= 70000)
    with untraced():
        env, s, h, pre = _mk(storage)
        from ZODB.FileStorage.FileStorage import FileStorageError
    # decide the three length classes symbolically, then build concrete metadata of boundary lengths
    lens = []
    for n in (lu, ld, le):
        if n == 70000:
            lens.append(70000)
        elif n > 65535:
            assume(n == 65536)
            lens.append(65536)
        elif n == 65535:
            lens.append(65535)
        else:
            assume(n <= 3)
            lens.append(realize(n))
    with untraced():
        t = T.meta(b'u' * lens[0], b'd' * lens[1])
        t.extension_bytes = b'e' * lens[2]
        too_long = any(n > 65535 for n in lens)
        refused = False
        try:
            s.tpc_begin(t)
        except FileStorageError:
            refused = True
        check(refused == too_long, 'over-long metadata accepted / legal metadata refused', lens, refused)
        # the caller aborts (the transaction package always does after a failed begin)
        s.tpc_abort(t)
        _state(env, s, h.m, pre, 'begin with metadata lengths %r' % (lens,))
        _follow_up(env, s, h)
    reached()


def h_fault_late(f: int, template: str, where: str, probe: bool = True) -> None:
    """A fault while LEAVING two-phase commit: the f-th low-level operation of tpc_abort (after a vote)
    fails, or the callback tpc_finish runs before committing raises.  The failed transaction must not
    leak into the next one: after the next commit (and after reopen) the storage shows exactly the
    history plus that commit."""
    assume(f >= 0)
    if where != 'abort':
        assume(f == 0)
    with untraced():
        locks.install()            # strict lock stubs: waiting for a lock one holds oneself raises instead of hanging
        env, s, h = T.build_file(template)
        fs = env.fs
        t = T.meta(b'u', b'doomed')
        s.tpc_begin(t)
        for o, d in RECS:
            s.store(o, h.serial.get(o, T.Z64), d, '', t)
        s.tpc_vote(t)
    if where == 'abort':
        fs.fail_at = fs.nops + f
    with untraced():
        fired = False
        if where == 'abort':
            try:
                s.tpc_abort(t)
            except OSError:
                fired = True
            fs.fail_at = None
            # (whether the abort passed the error on or swallowed it, what follows must hold)
            assume(bool(fs.fault_log))         # f beyond the last operation of the abort: nothing to see
            note('fired', fs.fault_log[-1][1])
        else:

            class Boom(Exception):
                pass

            def cb(tid):
                raise Boom('callback failed before the commit point')
            try:
                s.tpc_finish(t, cb)
                fail('tpc_finish swallowed the exception of its callback')
            except Boom:
                pass
            s.tpc_abort(t)            # harmless: the transaction is over either way
        for L in _locks(s):
            check(_lock_free(L), 'commit lock still held after a failed ' + where)
        # nothing of the failed transaction is visible ...
        # (probe=False: no reads before the following commits - the variant registered for C01, which is about what the
        # data file holds afterwards, not about reader buffers)
        if probe:
            B.full_battery(s, h.m)
        # ... and nothing of it leaks into the next transaction (shorter than the failed one, and longer)
        h.commit([(T.oid(2), b'n')], b'next', b'short')
        if probe:
            B.full_battery(s, h.m)
        h.commit([(T.oid(1), b'next-long-' * 12), (T.oid(43), b'z' * 50)], b'next', b'long')
        B.full_battery(s, h.m)
        s.close()
        s2 = env.filestorage()
        B.full_battery(s2, h.m)
        s2.close()
    reached()


def h_abort_reader(at: int, template: str) -> None:
    """A reader (pooled, buffered file handle) loads at a solver-chosen point while a transaction votes and
    is aborted and the next transaction commits at the same file position: the reader must never be
    served bytes of the aborted transaction."""
    assume(at >= 0)
    with untraced():
        from ZODB.utils import load_current
        env = T.Env()
        sch = locks.install(env.fs)
        try:
            s = env.filestorage()
            h = T.Hist(s)
            T.FILE_TEMPLATES[template](h)
            o = T.oid(1)
            seen = []

            def read():
                seen.append(load_current(s, o))
            # (no warm-up: the injected load is the first real read of the pooled handle, so its read-ahead buffer is
            # filled with whatever is in the file at that moment)
            sch.add(at, read, tid=1, name='reader load')
            sch.start()
            try:
                t = T.meta(b'u', b'aborted after vote')
                s.tpc_begin(t)
                s.store(o, h.serial[o], b'ABORTED-' + b'a' * 24, '', t)
                s.tpc_vote(t)
                sch.point('api')
                s.tpc_abort(t)
                sch.point('api')
                h.commit([(o, b'COMMITTED' + b'c' * 23)], b'u', b'aborted after vote')     # same length, same position
                sch.point('api')
            except locks.Blocked:
                note('blocked')
                sch.stop()
                assume(False)
            sch.stop()
            assume(not sch.pending)
            note('at', sch.trace[0][1])
            for d, tid in seen:
                check(not d.startswith(b'ABORTED'), 'reader was served data of an aborted transaction', d[:12], sch.trace)
            got = load_current(s, o)
            check(got == h.m.load(o), 'reader is served stale bytes of an aborted transaction after the next commit', got[0][:12], sch.trace)
            B.full_battery(s, h.m)
        finally:
            locks.uninstall()
            env.fs.hook = None
    reached()


def known_abort_truncate_fault(body):
    """known_findings.jsonl classifier: the truncate inside tpc_abort fails and a later load through a pooled
    reader handle misreads the overwritten bytes (CorruptedDataError).  Any other failure in that shard - e.g.
    records of the failed transaction showing up in the next one - is NOT this finding."""
    return (body.get('harness') == 'fault_late' and (body.get('fixed') or {}).get('where') == 'abort'
            and 'Error reading' in (body.get('message') or ''))


from zverif.harness.c12 import h_program as _conn_program  # noqa: E402
from zverif.harness.c13 import h_directed_undo_pack as _blob_undo_abort, h_undo_fault as _blob_undo_fault, h_foreign_finish as _blob_foreign_finish  # noqa: E402

HARNESSES = [
    Harness('fault', h_fault,
            decides='an I/O error at any low-level operation of begin/store/vote (optionally after a short write): after '
                    'the abort the data file is byte-identical, all queries unchanged, lock free, next commit and reopen fine',
            symbolic='f = index of the failing operation (free int), short = length of the preceding short write (0..120), '
                     'whether a short write precedes',
            bounds='templates per shard; 1-3 records in the failing transaction (small: one buffered OS write per file)',
            oracle='pre-state bytes + RevStore battery',
            code=['FileStorage.tpc_vote (incl. except branch)', 'store', '_abort', 'BaseStorage.tpc_begin/tpc_abort',
                  'FilePool.flush'],
            quick=dict(timeout=120, shards=shards(template=['T1', 'T4'], nrec=[1, 3])),
            thorough=dict(timeout=600, shards=shards(template=['T1', 'T2', 'T4', 'T6'], nrec=[1, 2, 3]))),
    Harness('fault_late', h_fault_late,
            decides='a fault while leaving 2PC (any low-level operation of tpc_abort after a vote fails; the tpc_finish callback '
                    'raises): locks are free, nothing of the failed transaction is visible, and nothing of it leaks into the next '
                    'transactions or survives a reopen',
            symbolic='f = index of the failing operation of tpc_abort', bounds='templates per shard; 3 records in the failed transaction',
            oracle='RevStore battery after the next short and long commits and after reopen',
            code=['BaseStorage.tpc_abort/tpc_begin (_clear_temp)', 'FileStorage._abort/tpc_finish/_clear_temp'],
            quick=dict(timeout=100, shards=shards(template=['T1'], where=['abort', 'finish_cb'])),
            thorough=dict(timeout=300, shards=shards(template=['T1', 'T4'], where=['abort', 'finish_cb']))),
    Harness('abort_reader', h_abort_reader,
            decides='a reader using the pooled buffered file handles, loading at any point while a transaction votes, aborts and '
                    'the next one commits at the same position, is never served bytes of the aborted transaction',
            symbolic='at = injection point of the reader\'s load over all lock/file-operation yield points', bounds='template T1; one reader',
            oracle='RevStore', code=['FileStorage._abort (FilePool.flush)', 'FilePool.get/empty/write_lock', 'FileStorage.load'],
            quick=dict(timeout=100, shards=shards(template=['T1'])),
            thorough=dict(timeout=300, shards=shards(template=['T1', 'T2']))),
    Harness('copy_fault', h_copy_fault,
            decides='an I/O error at any low-level operation of copyTransactionsFrom on the destination: the destination ends outside any '
                    'transaction with a free commit lock, holds exactly the completely copied prefix, accepts the next commit and reopens to it',
            symbolic='f = index of the failing operation over the whole copy', bounds='source template T1 (4 transactions); destination FileStorage',
            oracle='RevStore prefix + battery', code=['BaseStorage.copy', 'FileStorage.restore/tpc_vote/tpc_finish/_abort'],
            quick=dict(timeout=100, shards=shards(template=['T1'])), thorough=dict(timeout=300, shards=shards(template=['T1', 'T4']))),
    Harness('abort_phase', h_abort_phase,
            decides='abort after begin / stores / conflict / vote / foreign abort / a failing tpc_finish callback leaves the pre-transaction state and a free lock',
            symbolic='phase selector (0..5)', bounds='history T1 (+ one demo change)', oracle='pre-state bytes + RevStore battery',
            code=['FileStorage._abort', 'BaseStorage.tpc_abort', 'MappingStorage.tpc_abort', 'DemoStorage.tpc_abort'],
            quick=dict(timeout=100, shards=shards(storage=['file', 'mapping', 'demo', 'demo_file'])),
            thorough=dict(timeout=300, shards=shards(storage=['file', 'mapping', 'demo', 'demo_file']))),
    Harness('wrong_txn', h_wrong_txn,
            decides='store/vote/finish/abort/delete with a foreign (equal-looking) transaction object are rejected without effect',
            symbolic='call selector (0..4), phase selector (0..2)', bounds='history T1', oracle='StorageTransactionError + battery',
            code=['FileStorage.store/tpc_vote/tpc_finish/deleteObject identity checks', 'MappingStorage.*', 'DemoStorage.*'],
            quick=dict(timeout=100, shards=shards(storage=['file', 'mapping', 'demo', 'demo_file'])),
            thorough=dict(timeout=300, shards=shards(storage=['file', 'mapping', 'demo', 'demo_file']))),
    Harness('quota', h_quota,
            decides='quota exceeded in store: after the abort nothing changed and the next transaction commits',
            symbolic='quota value (0..2000)', bounds='templates T1, T4', oracle='pre-state bytes + RevStore battery',
            code=['FileStorage.store quota check', '_abort'],
            quick=dict(timeout=100, shards=shards(template=['T1'])),
            thorough=dict(timeout=300, shards=shards(template=['T1', 'T4']))),
    Harness('metadata', h_metadata,
            decides='user/description/extension longer than 65535 bytes are refused at begin; afterwards state unchanged, lock free',
            symbolic='three lengths: each ranges over {0,1,2,3,65535,65536,70000} (decided by the solver)',
            bounds='history T1', oracle='FileStorageError iff some length > 65535; pre-state + battery + follow-up commit',
            code=['FileStorage._begin', 'BaseStorage.tpc_begin', 'DemoStorage.tpc_begin/tpc_abort'],
            quick=dict(timeout=120, shards=shards(storage=['file', 'demo_file'])),
            thorough=dict(timeout=300, shards=shards(storage=['file', 'demo_file']))),
    Harness('blob_undo_abort', _blob_undo_abort,
            decides='an undo of blob transactions whose commit fails (another participant refuses at the vote) or during which a '
                    'file-system operation fails leaves the blob directory exactly as before: no committed blob file lost, no copy left behind '
                    '(C13 directed_undo_pack / undo_fault on the blob wrapper over FileStorage and on FileStorage with a blob directory)',
            symbolic='history selectors, final step selector (incl. the failing undo of the two newest transactions)', bounds='programs of 5-10 steps; real scratch directory',
            oracle='blob revision model + directory listing', code=['BlobStorage.undo (dirty_oids)', 'BlobStorage.tpc_abort', '_blob_tpc_abort'],
            quick=dict(timeout=400, shards=shards(kind=['proxy', 'file'])), thorough=dict(timeout=700, shards=shards(kind=['proxy', 'file']))),
    Harness('blob_refused_finish', _blob_foreign_finish,
            decides='a refused tpc_finish (foreign transaction; callback raising before the commit point) followed by the abort leaves no blob '
                    'file of the transaction behind and a usable storage (same harness as C13 foreign_finish)',
            symbolic='point (after the stores / after the vote), kind of refusal (2), number of blobs (1-2)',
            bounds='storage-level two-phase commit of 1-2 new blobs', oracle='blob directory listing before/after',
            code=['BlobStorage.tpc_finish', 'BlobStorageMixin._blob_tpc_finish/_blob_tpc_abort', 'FileStorage.tpc_finish/_abort'],
            quick=dict(timeout=60, shards=shards(kind=['file', 'mapping', 'proxy'])), thorough=dict(timeout=120, shards=shards(kind=['file', 'mapping', 'proxy']))),
    Harness('blob_undo_fault', _blob_undo_fault,
            decides='(C13 undo_fault) an undo during which any one file-system operation of the blob code fails stands completely or leaves nothing behind',
            symbolic='f = index of the failing operation', bounds='one fault per undo', oracle='blob revision model + directory listing',
            code=['BlobStorage.undo', 'FileStorage._txn_undo_write (blob copy)'],
            quick=dict(timeout=100, shards=shards(kind=['proxy'])), thorough=dict(timeout=200, shards=shards(kind=['proxy', 'file']))),
    Harness('connection_failed_commit', _conn_program,
            decides='connection level: after a commit that fails with a conflict in the middle of storing - also when the data comes '
                    'from savepoints - the connection shows the state from before the transaction and the retry commits normally '
                    '(same harness as C12 program, shards starting with a modification)',
            symbolic='step codes of programs over modify / add / savepoint / rollback / commit / abort / a conflicting commit by another connection',
            bounds='program length 4, first step fixed per shard', oracle='connection state model (zverif/progs.py)',
            code=['Connection._commit_savepoint/_store_objects/tpc_abort/_abort', 'TmpStore'],
            quick=dict(timeout=200, shards=shards(n=[4], storage=['file'], first=['modify0', 'modify1'])),
            thorough=dict(timeout=900, shards=shards(n=[4], storage=['file', 'mapping'], first=['modify0', 'modify1', 'savepoint', 'other0']))),
]

MANIFEST = dict(
    text='Bounded symbolic fault injection on the real storage code: the index of the failing OS-level operation and '
         'the length of a preceding short write are solver variables, so exhaustion of the path tree certifies that '
         'every operation of begin/store/vote was made to fail once; abort phase, foreign-transaction call, quota and '
         'metadata lengths are symbolic selectors/values.  After each failed or aborted attempt the data file must be '
         'byte-identical, all revision queries unchanged, the commit lock free, and a following commit and reopen correct.',
    note='single fault per run (ENOSPC, one-shot); faults of the I/O of tpc_finish itself are in C01 finish_fault; history '
         'templates; real CPython buffering between storage and the in-memory raw file; blob directory covered by C13; late faults (tpc_abort operations, raising finish callback incl. DemoStorage) in fault_late / '
         'abort_phase with strict lock stubs (a self-deadlock is reported, not hung); 1 open known finding (failing truncate in tpc_abort).',
    design_ref='DESIGN.md section 4, C05',
)
