"""C08 - packing is safe under concurrent commits and under a crash at any point.

H-SCHED: the packer is the primary thread; whole commits, an undo, a reader transaction, or a
second pack are injected at solver-chosen yield points (every lock operation and every
file-system call the pack performs).  H-CUT: the pack's multi-file operation log (writes to
.pack, renames, removals, index save) is cut at a solver-chosen operation with a solver-chosen
tear of a write, and the database is reopened (with whatever index and leftover files that
image contains).  H-FAULT: the f-th file-system operation of the pack fails.
Oracle: the differential oracle of C07 (everything observable at or after the pack time is
unchanged) against the pre-pack model extended by every commit that returned.
"""
import sys

import ZODB.FileStorage  # noqa: F401
import ZODB.mvccadapter as MV

from zverif import battery as B
from zverif import graph as GR
from zverif import templates as T
from zverif.api import assume, check, fail, reached, untraced, choose, realize, note, pick
from zverif.harness import c07
from zverif.model.revstore import MRec, MTxn, RevStore
from zverif.spec import Harness, shards
from zverif.symenv import codec, locks, vfs

codec.install()
F = sys.modules['ZODB.FileStorage.FileStorage']
DATA = '/db/Data.fs'

ASSUMPTIONS = [
    'sequentialisation as in C02: the injected operation (a whole commit / undo / reader transaction / second pack) runs '
    'atomically at a yield point of the packer; yield points are all lock operations and all file-system calls of the pack; '
    'context bound K = 1 or 2 injected operations',
    'crash model as in C01 (prefix of the operation log across all files + torn last write), applied to the operations a pack '
    'issues on the data, .pack, .old and .index files',
    'history G1 (zverif/graph.py); pack time between its 5th and 6th transaction so that the pack removes data and keeps later '
    'transactions, or (late) after everything present at pack start; garbage collection on',
    'what=split: ONE commit injected in two steps (begin+store+vote, then finish) at two ordered yield points of the packer',
]


def _setup(with_locks, late=False):
    env = T.Env()
    sch = locks.install(env.fs) if with_locks else None
    g = GR.G(env).build('G1')
    g.close()
    s = g.s
    pre = GR.model_from_storage(s)
    # pack time: just after the 5th listed transaction (t4) -> t5 (undo), t6, t7, t8 stay
    stop = (int.from_bytes(pre.txns[4].tid, 'big') + 5).to_bytes(8, 'big')
    if late:
        # pack time after everything present when the pack starts (the plain db.pack() case)
        stop = (int.from_bytes(pre.txns[-1].tid, 'big') + 5).to_bytes(8, 'big')
    return env, sch, g, s, pre, stop


def _pack(s, stop):
    from ZODB.serialize import referencesf
    with c07._patched_time():
        s.pack(c07._Tok(stop), referencesf, gc=True)


A_OID = T.oid(1)          # object `a` of history G1


def h_pack_race(at1: int, at2: int, k: int, what: str, late: bool = False) -> None:
    assume(0 <= at1)
    if k == 2:
        assume(at1 <= at2)
    else:
        assume(at2 == 0)
    with untraced():
        from ZODB.POSException import ReadConflictError, POSKeyError, UndoError
        from ZODB.utils import load_current
        env, sch, g, s, pre, stop = _setup(True, late)
        try:
            model = pre.copy()
            out = {}
            n = [0]

            def commit():
                data, serial = load_current(s, A_OID)
                n[0] += 1
                new = data + b' #%d' % n[0]
                t = T.meta(b'racer', b'commit during pack %d' % n[0])
                s.tpc_begin(t)
                s.store(A_OID, serial, new, '', t)
                s.tpc_vote(t)
                tid = s.tpc_finish(t)
                model.add(MTxn(tid, [MRec(A_OID, new)], b'racer', b'commit during pack %d' % n[0]))
                out.setdefault('commits', []).append(tid)

            pending = {}

            def vote_part():
                # one transaction in two steps: begin + store + vote here, the finish at a later point
                data, serial = load_current(s, A_OID)
                new = data + b' #split'
                t = T.meta(b'racer', b'commit split around the packer')
                s.tpc_begin(t)
                s.store(A_OID, serial, new, '', t)
                s.tpc_vote(t)
                pending['t'] = (t, new)

            def finish_part():
                t, new = pending['t']
                tid = s.tpc_finish(t)
                model.add(MTxn(tid, [MRec(A_OID, new)], b'racer', b'commit split around the packer'))
                out.setdefault('commits', []).append(tid)

            def undo():
                import base64
                last = model.txns[-1]
                t = T.meta(b'racer', b'undo during pack')
                s.tpc_begin(t)
                try:
                    s.undo(base64.encodebytes(last.tid).rstrip(), t)
                    s.tpc_vote(t)
                    tid = s.tpc_finish(t)
                except UndoError as ex:
                    s.tpc_abort(t)
                    out['undo'] = 'refused'       # undo may be disabled while packing: "database maintenance"
                    return
                recs = [MRec(r.oid, model.state_before(r.oid, last.tid), 0) for r in last.written()]
                model.add(MTxn(tid, recs, b'racer', b'undo during pack'))
                out['undo'] = tid

            ad = MV.MVCCAdapter.__new__(MV.MVCCAdapter)      # adapter over the already registered storage
            MV.Base.__init__(ad, s)
            ad._instances = set()
            ad._lock = locks.SLock()
            rd = MV.MVCCAdapterInstance(ad)
            rd.poll_invalidations()                          # the reader's snapshot: the newest state before the pack

            def read():
                got = {}
                for o in pre.oids():
                    try:
                        got[o] = rd.load(o)
                    except (ReadConflictError, POSKeyError) as ex:
                        got[o] = type(ex).__name__
                out['read'] = got

            def pack2():
                try:
                    _pack(s, stop)
                    out['pack2'] = 'ran'
                except F.FileStorageError as ex:
                    out['pack2'] = 'refused'
                    # refused means: a pack is running - and goes on running undisturbed by the refusal.  The undo log is
                    # not served during a pack ("Undo is currently disabled for database maintenance"):
                    try:
                        s.undoLog(0, 1)
                        out['undolog'] = 'served'
                    except UndoError:
                        out['undolog'] = 'refused'
            ops = dict(commit=commit, undo=undo, read=read, pack2=pack2)
            if what == 'split':
                sch.add(at1, vote_part, tid=1, name='vote')
                sch.add(at2, finish_part, tid=1, name='finish')
            else:
                sch.add(at1, ops[what], tid=1, name=what)
                if k == 2:
                    sch.add(at2, commit, tid=1, name='commit')
            sch.start()
            pack_failed = None
            try:
                _pack(s, stop)
            except locks.Blocked:
                note('blocked')
                sch.stop()
                assume(False)
            except Exception as ex:
                # "A pack that cannot complete fails leaving the database usable and unchanged": checked below
                pack_failed = ex
            sch.stop()
            assume(not sch.pending)
            note('at', sch.trace[0][1] if sch.trace else None)
            if pack_failed is not None:
                note('pack_failed', type(pack_failed).__name__)
                # only an undo committed meanwhile - its record may point back to a revision the packer has already decided to
                # drop - is accepted as a reason for a pack to give up
                check(what == 'undo', 'pack failed because of a concurrent commit / read / second pack', type(pack_failed).__name__,
                      str(pack_failed)[:100])
            # ---- oracle ----
            check(out.get('undolog') != 'served', 'after a second pack was refused the running pack is no longer treated as running '
                                                   '(undoLog is served mid-pack, a further pack would be admitted)')
            check(not s._pack_is_in_progress, 'pack flag left set')
            check(not s._commit_lock.locked(), 'commit lock left held after pack')
            if 'read' in out:
                want = GR.state_at(pre, b'\xff' * 8)
                for o, got in out['read'].items():
                    if isinstance(got, str):
                        # a reader may only be refused for an object that is unreachable garbage at its snapshot
                        check(o not in GR.reachable(want), 'reader got %s for a reachable object during pack' % got, o)
                    else:
                        check(got[0] == want.get(o), 'reader saw a wrong state during pack', o)
        finally:
            locks.uninstall()
            env.fs.hook = None
        c07.differential(model, s, stop, True, 'after pack with %s injected at %r' % (what, sch.trace))
        for tid in out.get('commits', []):
            check(model.txn(tid) is not None and any(t.tid == tid for t in GR.model_from_storage(s).txns),
                  'a commit made during the pack is missing afterwards', tid)
        s.close()
        s2 = env.filestorage()
        c07.differential(model, s2, stop, True, 'after reopen')
        # and the packed database is usable
        h = T.Hist(s2, model.copy())
        h.serial[A_OID] = model.revs(A_OID)[-1][0]
        h.commit([(A_OID, model.load(A_OID)[0] + b' post')])
        s2.close()
    reached()


def h_reader_primary(at: int, what: str) -> None:
    """Other role assignment: a reader is in the middle of load() (holding a pooled file handle) when a
    whole pack (or a whole commit) runs; afterwards every load must still be right."""
    assume(at >= 0)
    with untraced():
        from ZODB.utils import load_current
        env, sch, g, s, pre, stop = _setup(True)
        try:
            want = GR.state_at(pre, b'\xff' * 8)
            live = sorted(GR.reachable(want))
            for o in live[:2]:
                load_current(s, o)                         # pooled handles exist
            if what == 'pack':
                sch.add(at, lambda: _pack(s, stop), tid=1, name='pack')
            else:
                def commit():
                    data, serial = load_current(s, A_OID)
                    t = T.meta(b'racer')
                    s.tpc_begin(t)
                    s.store(A_OID, serial, data, '', t)
                    s.tpc_vote(t)
                    s.tpc_finish(t)
                sch.add(at, commit, tid=1, name='commit')
            sch.start()
            try:
                got = load_current(s, live[-1])             # the primary's load: yield points inside FilePool.get and the reads
            except locks.Blocked:
                note('blocked')
                sch.stop()
                assume(False)
            sch.stop()
            assume(not sch.pending)
            note('at', sch.trace[0][1])
            check(got[0] == want[live[-1]], 'load running across a pack returned a wrong state', live[-1])
            for o in live:
                try:
                    d = load_current(s, o)[0]
                except Exception as ex:
                    fail('load after a pack that overlapped a reader raised', type(ex).__name__, str(ex)[:120], sch.trace)
                check(d == want[o] or o == A_OID, 'load after a pack that overlapped a reader returned a wrong state', o, sch.trace)
        finally:
            locks.uninstall()
            env.fs.hook = None
    reached()


def h_pack_crash(p: int, j: int, band: int) -> None:
    """Crash at the p-th file-system operation of a pack (tear j of a write), then reopen."""
    with untraced():
        env, _, g, s, pre, stop = _setup(False)
        s._save_index()             # an up-to-date index from before the pack exists (as after any clean reopen)
        start = len(env.fs.log)
        _pack(s, stop)
        log = env.fs.log
        nops = len(log)
        # candidate cut points: every mutating operation of the pack, and "after everything"
        cand = [i for i in range(start, nops) if log[i][0] in ('write', 'truncate', 'rename', 'remove', 'create')] + [nops]
    k = pick(p, 0, len(cand))
    if band >= 0:
        assume(k % 4 == band)      # shard: every 4th cut operation
    with untraced():
        pi = cand[k]
        files, dirs = vfs.image(log, pi)
        torn = None
        if pi < nops and log[pi][0] == 'write':
            torn = log[pi]
    if torn is not None:
        jj = pick(j, 0, len(torn[3]) + 1)
        with untraced():
            vfs.apply_op(files, dirs, torn, partial=jj)
    else:
        assume(j == 0)
    with untraced():
        note('op', log[pi][0] + ':' + log[pi][1].split('/')[-1] if pi < nops else 'end')
        env2 = T.Env()
        for path, data in files.items():
            if not path.endswith('.lock') and not path.endswith('.tmp'):
                env2.fs.put(path, data)
        # The cuts that leave NO data file (between the pack's two renames) are explored by the shard band=-1 alone; that
        # is a recorded open finding (known_findings.jsonl), kept apart so that every other cut is still explored in full.
        assume((DATA in files) == (band >= 0))
        if DATA not in files:
            fail('after a crash between the two renames of a pack there is no data file: reopening silently creates an empty '
                 'database (the unpacked file sits in .old, the packed one in .pack)', sorted(x for x in files if x.startswith(DATA)))
        try:
            s2 = env2.filestorage()
        except Exception as ex:
            fail('reopen after a crash during pack raised', type(ex).__name__, str(ex)[:200], log[pi] if pi < nops else None)
        c07.differential(pre, s2, stop, True, 'after crash at op %d' % pi)
        post = GR.model_from_storage(s2)
        check(post.last_tid() == pre.last_tid(), 'transactions lost by a crash during pack')
        h = T.Hist(s2, post.copy())
        h.serial[A_OID] = post.revs(A_OID)[-1][0]
        h.commit([(A_OID, post.load(A_OID)[0] + b' post-crash')])
        s2.close()
        s3 = env2.filestorage()
        with_commit = pre.copy()
        with_commit.add(h.m.txns[-1])
        c07.differential(with_commit, s3, stop, True, 'after crash, commit and reopen')
        s3.close()
    reached()


def known_crash_between_renames(body):
    """known_findings.jsonl classifier: the crash image between rename(Data.fs -> .old) and rename(.pack -> Data.fs)."""
    return (body.get('harness') == 'pack_crash' and (body.get('fixed') or {}).get('band') == -1
            and 'no data file' in (body.get('message') or ''))


def h_pack_fault(f: int, prior: bool = False, sticky: bool = False) -> None:
    """The f-th file-system operation of the pack fails (sticky: and every later write of the pack too - the disk
    stays full until the pack has given up): database unchanged and usable, .pack removed."""
    assume(f >= 0)
    with untraced():
        env, _, g, s, pre, stop = _setup(False)
        if prior:
            # an earlier pack has left its .old file behind (the default): this pack starts by removing it
            first = (int.from_bytes(pre.txns[2].tid, 'big') + 5).to_bytes(8, 'big')
            _pack(s, first)
            pre = GR.model_from_storage(s)
        s._file.flush()
        before = bytes(env.fs.content(DATA))
        fs = env.fs
    fs.fail_at = fs.nops + f
    fs.fail_sticky = sticky
    with untraced():
        failed = None
        try:
            _pack(s, stop)
        except OSError as ex:
            failed = ex
        fired = bool(fs.fault_log)
        fs.fail_at = None
        fs.fail_sticky = False
        assume(fired)
        note('op', fs.fault_log[-1][1] + ':' + (fs.fault_log[-1][2] or '').split('/')[-1])
        check(not s._pack_is_in_progress, 'pack flag left set after a failed pack')
        check(not s._commit_lock.locked(), 'commit lock left held after a failed pack')
        if failed is not None:
            if all(e[1] == 'write' for e in fs.fault_log):
                # a pack that ran out of space gives the space back (a failing rename / remove at the swap is another
                # matter: the leftover is harmless there and the next pack replaces it)
                check(not env.fs.exists(DATA + '.pack'), '.pack file left behind by a pack that failed writing', fs.fault_log[-1][1:])
            c07.differential(pre, s, stop, True, 'after failed pack')
        # the database is usable: a commit, a new pack, a reopen
        post = GR.model_from_storage(s)
        check(post.last_tid() == pre.last_tid(), 'transactions lost by a failed pack')
        h = T.Hist(s, post.copy())
        h.serial[A_OID] = post.revs(A_OID)[-1][0]
        h.commit([(A_OID, post.load(A_OID)[0] + b' after-failure')])
        with_commit = pre.copy()
        with_commit.add(h.m.txns[-1])
        _pack(s, stop)
        c07.differential(with_commit, s, stop, True, 'after re-pack')
        check(not env.fs.exists(DATA + '.pack'), '.pack file left behind')
        s.close()
        s2 = env.filestorage()
        c07.differential(with_commit, s2, stop, True, 'after failed pack, re-pack and reopen')
        check(s2.load(A_OID)[0].endswith(b' after-failure'), 'commit after a failed pack lost')
        s2.close()
    reached()


HARNESSES = [
    Harness('pack_race', h_pack_race,
            decides='a commit / undo / reader transaction / second pack injected at any lock or file operation of a running pack '
                    '(and a further commit after it): every returned commit is present afterwards, everything observable at/after '
                    'the pack time is unchanged, readers see correct states (or a retryable error only for garbage), a second pack '
                    'is refused, locks and flags are released, the result survives reopen',
            symbolic='injection points at1 <= at2 over all yield points of the pack', bounds='K = 1 or 2 injected operations; history G1',
            oracle='C07 differential oracle against pre-pack model + injected commits',
            code=['FileStorage.pack', 'FileStoragePacker.pack/copyToPacktime/copyRest/copyOne', 'FilePool.write_lock/empty', 'FileStorage.store/'
                  'tpc_finish/undo during pack', 'MVCCAdapterInstance.load'],
            quick=dict(timeout=170, shards=shards(what=['commit', 'undo', 'read', 'pack2'], k=[1]) + shards(what=['commit'], k=[1], late=[True])
                       + shards(what=['split'], k=[2], late=[False, True])),
            thorough=dict(timeout=1200, shards=shards(what=['commit', 'undo', 'read', 'pack2'], k=[1, 2], late=[False, True])
                          + shards(what=['split'], k=[2], late=[False, True]))),
    Harness('reader_primary', h_reader_primary,
            decides='a whole pack (or commit) placed at any lock/file operation inside a reader\'s load() either has to wait or leaves '
                    'the reader and all later loads correct (file swap versus checked-out read handles)',
            symbolic='at = injection point over the yield points of load()', bounds='history G1; one injected operation', oracle='pre-pack state',
            code=['FilePool.get/write_lock/empty', 'FileStorage.load', 'FileStorage.pack (swap)'],
            quick=dict(timeout=100, shards=shards(what=['pack', 'commit'])),
            thorough=dict(timeout=300, shards=shards(what=['pack', 'commit']))),
    Harness('pack_crash', h_pack_crash,
            decides='a crash at any file-system operation of a pack (any byte of a torn write): the database reopens - with the index '
                    'and leftover .pack/.old files of that image - to a state equivalent to the packed or unpacked database, loses no '
                    'transaction, and accepts further commits',
            symbolic='p over all mutating operations of the pack (data, .pack, .old, .index files), j = tear of the write',
            bounds='one pack of history G1', oracle='C07 differential oracle',
            code=['FileStorage.__init__/_restore_index/_check_sanity/read_index on crash images of a pack', 'FileStorage.pack (operation order)'],
            quick=dict(timeout=170, shards=shards(band=[0, 1, 2, 3, -1])), thorough=dict(timeout=900, shards=shards(band=[0, 1, 2, 3, -1]))),
    Harness('pack_fault', h_pack_fault,
            decides='a pack whose f-th file-system operation fails leaves the database unchanged and usable (commit lock free, pack '
                    'flag reset, .pack removed); a later pack succeeds',
            symbolic='f over all file-system operations of the pack', bounds='one fault', oracle='C07 differential oracle + follow-up commit/pack/reopen',
            code=['FileStoragePacker.pack (OSError paths, close_files_remove)', 'FileStorage.pack (finally)'],
            quick=dict(timeout=150, shards=shards(prior=[False, True], sticky=[False]) + shards(prior=[False], sticky=[True])), thorough=dict(timeout=600, shards=shards(prior=[False, True], sticky=[False, True]))),
]

MANIFEST = dict(
    text='Sequentialised schedule search, crash cut and fault injection on the real pack code: the injection point of a '
         'concurrent commit/undo/reader/second pack, the crash position (operation and tear) in the pack\'s multi-file operation '
         'log, and the failing operation are solver variables; each is exhausted within its bound and judged by the differential '
         'pack oracle of C07 plus presence of every returned commit.',
    note='K <= 2 atomic injected operations at lock/file-operation granularity (incl. one commit split into vote and finish); one history, pack time in its middle or after it; crash = prefix of the '
         'operation log + torn write; Windows rename semantics and blob directories (C13) outside; 1 open known finding (crash between the two renames, shard band=-1).',
    design_ref='DESIGN.md section 4, C08',
)
