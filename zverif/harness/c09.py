"""C09 - index and side files are only caches; a read-only open changes nothing.

H-CUT/H-ARG: the moment `m` at which the .index file was saved (a symbolic selector over every
earlier moment of the same database), the length `L` the index file was cut to (symbolic file
length over concrete content), and the presence of leftover .tmp/.lock/.pack/.old/.index_tmp
files are symbolic.  The open (FileStorage.__init__/_restore_index/_check_sanity/read_index,
fsIndex.load) is executed by CrossHair; the result must answer every revision query like a
scan of the data file alone, i.e. like the model history.
Read-only: the operation log of the file layer must stay empty and every writer must raise
ReadOnlyError, also when the file ends in an unfinished transaction.
"""
import sys

import ZODB.FileStorage  # noqa: F401

from zverif import battery as B
from zverif import templates as T
from zverif.api import assume, check, fail, reached, untraced, choose, realize, note
from zverif.spec import Harness, shards
from zverif.symenv import codec

codec.install()
DATA = '/db/Data.fs'
INDEX = '/db/Data.fs.index'

ASSUMPTIONS = [
    'index files are produced by the real _save_index at every earlier moment of the same history (after each '
    'transaction; and before a pack once C07 templates are involved); bit damage inside an index is outside the property',
    'truncation of the index file = symbolic file length over the concrete saved bytes',
    'history templates T1-T6, T10, T2L (oids under two prefixes, last transaction low oids only), T3E (file ends in empty '
    'transactions), TE (only empty transactions)',
]


def _record_indexes(template):
    """Run the template, saving the index after every transaction. -> (data bytes, [index bytes], model)"""
    env = T.Env()
    s = env.filestorage()
    h = T.Hist(s)
    snaps = []
    orig_commit = {}

    def snap():
        s._save_index()
        snaps.append(bytes(env.fs.content(INDEX)))

    # wrap Hist so that an index snapshot is taken after every transaction
    for name in ('commit', 'delete', 'undo', 'restore'):
        f = getattr(h, name)

        def wrapped(*a, _f=f, **k):
            r = _f(*a, **k)
            snap()
            return r
        setattr(h, name, wrapped)
    snap()                                  # index of the empty database
    T.FILE_TEMPLATES[template](h)
    s.close()
    return bytes(env.fs.content(DATA)), snaps, h.m


def h_stale_index(m: int, cut: int, use_cut: bool, leftovers: bool, template: str) -> None:
    tmpf = packf = oldf = itmpf = leftovers
    with untraced():
        data, snaps, model = _record_indexes(template)
    k = choose(m, len(snaps))
    with untraced():
        env = T.Env()
        env.fs.put(DATA, data)
        idx = snaps[k]
        # leftovers from earlier runs / crashes: content is junk, they must be ignored or replaced
        if tmpf:
            env.fs.put(DATA + '.tmp', b'junk-from-a-dead-process' * 3)
        if packf:
            env.fs.put(DATA + '.pack', data[:57])
        if oldf:
            env.fs.put(DATA + '.old', b'FS30' + b'\0' * 40)
        if itmpf:
            env.fs.put(INDEX + '.index_tmp', idx[:11])
        env.fs.put(DATA + '.lock', b' 4242\n')           # stale, unlocked lock file
    if use_cut:
        assume(0 <= cut < len(idx))
        env.fs.put(INDEX, idx, symsize=cut)
    else:
        assume(cut == 0)
        env.fs.put(INDEX, idx)
    note('moment', k)
    try:
        s = env.filestorage()
    except Exception as ex:
        fail('open with a stale/cut index raised', type(ex).__name__, str(ex)[:200], k)
    with untraced():
        note('used_index', s._used_index)
        B.full_battery(s, model)
        # new oids do not collide with anything stored (index-derived counter)
        no = s.new_oid()
        check(all(no > o for o in model.oids()), 'new_oid after reopen collides with or precedes a stored oid', no)
        # and the storage is usable; afterwards a clean reopen agrees as well
        h2 = T.Hist(s, model.copy())
        for o in model.oids():
            h2.serial[o] = model.revs(o)[-1][0]
        h2.commit([(T.oid(1), b'after-reopen')])
        B.full_battery(s, h2.m)
        s.close()
        s2 = env.filestorage()
        B.full_battery(s2, h2.m)
        s2.close()
    reached()


def h_stale_index_pack(m: int, cut: int, use_cut: bool, gc: bool, hist: str) -> None:
    """The index was saved at any moment BEFORE a pack (or after it); the data file is the packed one.
    hist G1: graph history.  hist EQ: transactions of equal length, so that after the pack and one more
    commit the file is as long as before and its last transaction sits where the pre-pack one did."""
    with untraced():
        from zverif import graph as GR
        from ZODB.serialize import referencesf
        env = T.Env()
        snaps = []
        if hist == 'G1':
            g = GR.G(env)
            orig_commit = g.commit

            def commit(note=None):
                orig_commit(note)
                g.s._save_index()
                snaps.append(bytes(env.fs.content(INDEX)))
            g.commit = commit
            g.build('G1')
            g.close()
            s = g.s
            s.pack(env.clock.now - 3.5, referencesf, gc=gc)
            snaps.append(bytes(env.fs.content(INDEX)))          # the index the pack itself saved
        else:
            s = env.filestorage()
            h = T.Hist(s)
            X, Y = T.oid(1), T.oid(2)
            for recs in ([(T.Z64, b'root-object')], [(X, b'x-version-1')], [(Y, b'y-version-1')], [(X, b'x-version-2')]):
                h.commit(recs)
                s._save_index()
                snaps.append(bytes(env.fs.content(INDEX)))
            s.pack(env.clock.time(), lambda p: [], gc=False)
            h.commit([(X, b'x-version-3')])
        packed = GR.model_from_storage(s)
        s.close()
        data = bytes(env.fs.content(DATA))
    k = choose(m, len(snaps))
    with untraced():
        env2 = T.Env()
        env2.fs.put(DATA, data)
        idx = snaps[k]
    if use_cut:
        assume(0 <= cut < len(idx))
        env2.fs.put(INDEX, idx, symsize=cut)
    else:
        assume(cut == 0)
        env2.fs.put(INDEX, idx)
    note('moment', k)
    try:
        s2 = env2.filestorage()
    except Exception as ex:
        fail('open of a packed file with a pre-pack index raised', type(ex).__name__, str(ex)[:200], k)
    with untraced():
        note('used_index', s2._used_index)
        got = GR.model_from_storage(s2)
        check([B.mtxn_view(t) for t in got.txns] == [B.mtxn_view(t) for t in packed.txns],
              'iteration after opening with a pre-pack index differs from the packed file')
        for o in packed.oids():
            B.q_load(s2, packed, o)
            for t in packed.txns:
                B.q_load_before(s2, packed, o, t.tid)
        no = s2.new_oid()
        check(all(no > o for o in packed.oids()), 'new_oid after reopen collides with a stored oid', no)
        s2.close()
    reached()


def _dir_image(env):
    files, dirs = env.fs.snapshot('/db')
    return files, dirs


def h_read_only(cut: int, template: str, torn: bool, idx: str = 'own', travel: int = 0, via: str = 'ctor') -> None:
    """Read-only open (optionally of a file ending in an unfinished transaction): no file is
    modified, every writer raises ReadOnlyError, reads agree with the committed history."""
    with untraced():
        from ZODB.POSException import ReadOnlyError
        foreign = None
        if idx == 'foreign':
            # an index file that loads but does not belong to this data file (it is rejected at open)
            envf, sf, hf = T.build_file('T2L')
            sf.close()
            foreign = bytes(envf.fs.content(DATA + '.index'))
        env, s, h = T.build_file(template)
        base = len(env.fs.content(DATA))
        full = None
        if torn:
            t = T.meta(b'torn')
            s.tpc_begin(t)
            s.store(T.oid(1), h.serial[T.oid(1)], b'never-committed', '', t)
            s.tpc_vote(t)
            full = bytes(env.fs.content(DATA))
            s.tpc_abort(t)
        s.close()
        if foreign is not None:
            env.fs.put(DATA + '.index', foreign)
        elif idx == 'none':
            env.fs.os.remove(DATA + '.index')
    short_tail = False      # (a tail shorter than a transaction header used to be excused here: repaired by 0447105)
    if torn:
        assume(base < cut <= len(full))
        env.fs.put(DATA, full, symsize=cut)
    else:
        assume(cut == 0)
    with untraced():
        before = _dir_image(env)
        nlog = len(env.fs.log)
        nops = env.fs.nops
    # time travel (read-only only): open as of a solver-chosen transaction boundary; whether a saved index lies next to
    # the file must make no difference
    kw = {}
    model = h.m
    if torn or idx == 'foreign' or via == 'config':
        assume(travel == 0)
    else:
        tk = choose(travel, len(h.m.txns) + 1)
        if tk:
            from zverif.model.revstore import RevStore
            stop_tid = h.m.txns[tk - 1].tid
            kw = dict(stop=stop_tid)
            model = RevStore([t_ for t_ in h.m.txns if t_.tid < stop_tid])
            note('travel', tk)
    try:
        if via == 'config':
            # the same open spelled as a configuration section
            import ZODB.config
            with untraced():
                import io
                import ZConfig
                import ZConfig.datatypes as ZD
                real_os = ZD.os
                ZD.os = env.fs.os          # ZConfig checks that the directory exists: let it look at the same file system
                try:
                    cfg, _h = ZConfig.loadConfigFile(ZODB.config.getStorageSchema(), io.StringIO(
                        '<filestorage>\n  path %s\n  read-only true\n</filestorage>\n' % DATA))
                finally:
                    ZD.os = real_os
            r = ZODB.config.storageFromConfig(cfg.storage)      # = section.open(): ZODB.config.FileStorage.open
        else:
            r = env.filestorage(read_only=True, **kw)
    except Exception as ex:
        fail('read-only open raised', type(ex).__name__, str(ex)[:200])
    with untraced():
        node = env.fs.files[DATA]
    if node.symsize is not None:
        n_ = realize(node.symsize)
        with untraced():
            node.data = node.data[:n_]
            node.symsize = None
            before[0][DATA] = bytes(node.data)
    with untraced():
        check(r.isReadOnly(), 'storage does not report read-only')
        if kw:
            # (iterator() always walks the whole file)
            if model.txns:
                B.full_battery(r, model, iterator=False)
        else:
            B.full_battery(r, h.m, iterator=not short_tail)
        t = T.meta(b'w')
        calls = [
            lambda: r.tpc_begin(t),
            lambda: r.store(T.oid(1), h.serial[T.oid(1)], b'x', '', t),
            lambda: r.deleteObject(T.oid(1), h.serial[T.oid(1)], t),
            lambda: r.restore(T.oid(1), b'\x7f' * 8, b'x', '', None, t),
            lambda: r.undo(b'AAAAAAAAAAA=', t),
            lambda: r.pack(env.clock.time(), lambda p: []),
            lambda: r.new_oid(),
            lambda: r.tpc_abort(t),        # harmless no-op
            lambda: r.tpc_vote(t),
        ]
        from ZODB.POSException import StorageTransactionError
        for c in range(len(calls)):
            try:
                calls[c]()
                check(c == 7, 'write call %d accepted by a read-only storage' % c)
            except ReadOnlyError:
                pass
            except StorageTransactionError:
                check(c == 8, 'unexpected StorageTransactionError for call %d' % c)
        if not kw or model.txns:
            B.q_last(r, model)
        r.close()
        after = _dir_image(env)
        check(env.fs.nops == nops and len(env.fs.log) == nlog, 'read-only use issued a mutating file operation',
              env.fs.log[nlog:nlog + 3])
        check(after == before, 'directory contents changed by read-only use',
              sorted(set(after[0]) ^ set(before[0])))
    reached()


def h_read_only_live(at: int, template: str) -> None:
    """Read-only open at any low-level moment of a writer's commit (same file, other process): sees a
    committed prefix, modifies nothing."""
    assume(at >= 0)
    with untraced():
        env, s, h = T.build_file(template)
        s._save_index()
        state = {}

        def probe(kind, path):
            if state.get('busy') or 'done' in state or not path or not path.startswith(DATA) or path.endswith('.lock'):
                return
            i = state.get('n', 0)
            state['n'] = i + 1
            from zverif import api
            if not api.decide(lambda: i == at):
                return
            state['busy'] = True
            try:
                before = _dir_image(env)
                nops = env.fs.nops
                r = env.filestorage(read_only=True)
                tids = B.neighbours  # noqa
                it = r.iterator()
                seen = [t.tid for t in it]
                it.close()
                state['seen'] = seen
                state['last'] = r.lastTransaction()
                r.close()
                state['unchanged'] = (env.fs.nops == nops and _dir_image(env) == before)
                state['done'] = True
            finally:
                state['busy'] = False
        env.fs.hook = probe
        try:
            h.commit([(T.oid(1), b'live-1'), (T.oid(9), b'live-new')], b'live')
        finally:
            env.fs.hook = None
        assume('done' in state)
        all_tids = [t.tid for t in h.m.txns]
        n = len(state['seen'])
        check(state['seen'] == all_tids[:n] and n >= len(all_tids) - 1,
              'concurrent read-only open does not see a committed prefix', n, len(all_tids))
        check(state['last'] == (all_tids[n - 1] if n else T.Z64), 'lastTransaction of concurrent reader wrong')
        check(state['unchanged'], 'concurrent read-only open modified a file')
    reached()


def known_prepack_index(body):
    """known_findings.jsonl classifier: the equal-length history EQ with a pre-pack index."""
    return body.get('harness') == 'stale_index_pack' and (body.get('fixed') or {}).get('hist') == 'EQ'


HARNESSES = [
    Harness('stale_index', h_stale_index,
            decides='opening with an index saved at any earlier moment, cut to any length, and with junk leftover side '
                    'files yields exactly the state of the data file (every revision query, new_oid, further commits, reopen)',
            symbolic='m (selector over all earlier save moments), cut (symbolic length of the index file); shards: whether the '
                     'index is cut, whether junk .tmp/.pack/.old/.index_tmp/.lock leftovers are present',
            bounds='templates per shard', oracle='RevStore battery (= full scan of the data file, by C04)',
            code=['FileStorage.__init__', '_restore_index', '_sane/_check_sanity', 'read_index(start=...)', 'fsIndex.load',
                  '_save_index'],
            quick=dict(timeout=170, shards=shards(template=['T1', 'T2', 'T4', 'T6', 'T2L'], use_cut=[True], leftovers=[False])
                       + shards(template=['T2', 'T4', 'T3E', 'TE'], use_cut=[False], leftovers=[True])),
            thorough=dict(timeout=900, shards=shards(template=['T1', 'T2', 'T3', 'T4', 'T5', 'T6', 'T10', 'T2L', 'T3E', 'TE'], use_cut=[True, False],
                                                     leftovers=[True, False]))),
    Harness('stale_index_pack', h_stale_index_pack,
            decides='a packed data file opened with an index saved at any moment before the pack (or the pack\'s own), cut to any '
                    'length, yields exactly the state of the packed file',
            symbolic='m (selector over the 9 pre-pack save moments + the post-pack index), cut (symbolic index length)',
            bounds='history G1, one pack (gc on/off); history EQ (equal-length transactions: pack + one commit restore the file length)', oracle='model derived from the packed file',
            code=['FileStorage._restore_index', '_check_sanity', 'read_index(start=...)'],
            quick=dict(timeout=150, shards=shards(use_cut=[False, True], gc=[True], hist=['G1']) + shards(use_cut=[False], gc=[False], hist=['EQ'])),
            thorough=dict(timeout=600, shards=shards(use_cut=[False, True], gc=[True, False], hist=['G1']) + shards(use_cut=[False, True], gc=[False], hist=['EQ']))),
    Harness('read_only', h_read_only,
            decides='read-only open, reads and attempted writes modify no file (empty operation log, identical directory) and '
                    'every writer raises ReadOnlyError, also with an unfinished transaction of any torn length at the end',
            symbolic='cut (length of the torn tail, symbolic file length); all 9 writer API calls are tried on every path',
            bounds='templates T1, T4', oracle='operation log + directory image + RevStore battery',
            code=['FileStorage.__init__ (read_only)', 'read_index (read_only branches)', 'store/tpc_begin/... read-only guards', 'ZODB.config.FileStorage.open (via=config)'],
            quick=dict(timeout=170, shards=shards(template=['T1'], torn=[False, True], via=['ctor']) + shards(template=['T1'], torn=[False], idx=['foreign', 'none'], via=['ctor'])
                       + shards(template=['T1'], torn=[False, True], idx=['own'], travel=[0], via=['config'])),
            thorough=dict(timeout=900, shards=shards(template=['T1', 'T4', 'T2'], torn=[False, True], idx=['own', 'foreign', 'none'], via=['ctor'])
                          + shards(template=['T1', 'T4'], torn=[False, True], idx=['own', 'none'], travel=[0], via=['config']))),
    Harness('read_only_live', h_read_only_live,
            decides='a read-only open placed at any file-operation of a writer\'s commit sees a committed prefix and changes nothing',
            symbolic='at (injection point over the writer\'s file operations)', bounds='template T1 + one commit',
            oracle='prefix of commit order; op log', code=['FileStorage.__init__ (read_only)', 'read_index'],
            quick=dict(timeout=100, shards=shards(template=['T1'])),
            thorough=dict(timeout=300, shards=shards(template=['T1', 'T4']))),
]

MANIFEST = dict(
    text='Bounded symbolic execution of FileStorage opening: the save moment of the index (selector), the length the '
         'index file is cut to (symbolic), and leftover side files (flags) are solver variables; every revision query after '
         'the open is compared with the model of the data file.  Read-only: the file layer\'s operation log must stay empty '
         'for open + every API call (selector), with a torn unfinished transaction of symbolic length at the end, and for an '
         'open injected at a symbolic point of a live writer\'s commit.',
    note='history templates; index bit damage excluded by the property; crash images of C01/C08 combined with stale indexes '
         'only through the pre-pack variant in C07/C08 harnesses.',
    design_ref='DESIGN.md section 4, C09',
)
