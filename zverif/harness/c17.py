"""C17 - copying or recovering a storage reproduces its full history.

Copy (H-ARG): the iterator range (start, stop) is 8 FREE BYTES each; source histories include
undo records, un-creations, restores with hints and packed prefixes; destination kinds are
file and mapping.  The destination must answer every revision query like the model of the
copied range.
Recover: on an undamaged file fsrecover must reproduce the history; on a TRUNCATED file the
truncation length is symbolic (file length over concrete content) and fsrecover runs under
CrossHair; for a DAMAGED region the offset, length and replacement byte class are solver-
chosen selectors and fsrecover runs on the concrete damaged file.  Oracle: terminates (read
budget), every transaction that ends before the damage is in the output, and every output
transaction is a transaction of the input with the same id, order and record bytes.
"""
import sys

import ZODB.FileStorage  # noqa: F401
import ZODB.fsrecover as FR

from zverif import battery as B
from zverif import graph as GR
from zverif import templates as T
from zverif.api import assume, check, fail, reached, untraced, choose, realize, note, pick
from zverif.model import fsparse
from zverif.model.revstore import MRec, MTxn, RevStore
from zverif.spec import Harness, shards
from zverif.symenv import codec, vfs

codec.install()
F = sys.modules['ZODB.FileStorage.FileStorage']
SRC = '/db/Data.fs'
OUT = '/db/Recovered.fs'

ASSUMPTIONS = [
    'destination mapping: only histories without undo records, un-creations, deletions or repeated stores: a MappingStorage has '
    'neither restore() nor undo nor deleteObject, so it cannot represent "this object does not exist any more" at all (copy() then '
    'hands it data None through the store() fallback and load returns (None, tid) - a limit of that destination kind, stated here, '
    'not claimed as a finding)',
    'blob_copy runs on a scratch directory of the real file system (as C13); blob contents are short concrete byte strings',
    'source histories: templates T1-T6, T12 (two undos of one object in one transaction, later change, undo of it), (undo records, un-creation, restore with back-pointer hints, deleteObject) and a '
    'packed graph history; destination kinds file and mapping',
    'recovery: damage = one region: truncation at a symbolic length, or 1/4 bytes at a solver-chosen offset replaced by a '
    'byte of a solver-chosen class (".", "c", " ", "p", "u", 0x00, 0xff, 0x17); longer/multiple regions outside the claim',
    'termination = at most 8 read operations per byte of input + 400 (budget enforced by the file layer, not swallowed by '
    'fsrecover\'s exception handlers)',
    '"transaction of the input" is judged against the damaged file as given: the format has no checksums, so altered '
    'payload bytes inside an otherwise well-formed transaction cannot be recognised by any tool',
    'fsrecover\'s progress printing is rebound to a no-op',
]


def _quiet():
    FR.print = lambda *a, **k: None


# ---------------------------------------------------------------------------
# copy

def _source(template):
    if template == 'PACKED':
        env = T.Env()
        g = GR.G(env).build('G1')
        g.close()
        from ZODB.serialize import referencesf
        g.s.pack(env.clock.now - 3.5, referencesf)
        return env, g.s, GR.model_from_storage(g.s)
    if template.startswith('M'):
        # a MappingStorage as source (the property ranges over all source / destination kinds)
        env, s, h = T.build_mapping('T' + template[1:])
        # (the model is what the source iterates - a mapping keeps one record per object and transaction; that its
        # iteration is right is C04's subject)
        return env, s, GR.model_from_storage(s)
    if template == 'T12':
        # two undos of one object in ONE transaction (two records of the same oid), a later change, and its undo
        import base64
        env = T.Env()
        s = env.filestorage()
        h = T.Hist(s)
        o = T.oid(1)
        tids = [h.commit([(o, b'state-%d' % i), (T.oid(2), b'other-%d' % i)]) for i in (1, 2, 3)]
        t = T.meta(b'u', b'double undo')
        s.tpc_begin(t)
        s.undo(base64.encodebytes(tids[2]).rstrip(), t)
        s.undo(base64.encodebytes(tids[1]).rstrip(), t)
        s.tpc_vote(t)
        s.tpc_finish(t)
        data, serial = s.load(o)
        assert data == b'state-1', data
        h.serial[o] = serial
        t5 = h.commit([(o, b'state-5')])
        t = T.meta(b'u', b'undo of the later change')
        s.tpc_begin(t)
        s.undo(base64.encodebytes(t5).rstrip(), t)
        s.tpc_vote(t)
        s.tpc_finish(t)
        return env, s, GR.model_from_storage(s)
    env, s, h = T.build_file(template)
    return env, s, h.m


def _range_model(m, start, stop):
    return RevStore(m.iterate(start, stop))


def h_copy(start: bytes, stop: bytes, use_start: bool, use_stop: bool, template: str, dest: str) -> None:
    assume(len(start) == 8 and len(stop) == 8)
    with untraced():
        env, s, m = _source(template)
        s_src = s
        if not template.startswith('M'):
            s.close()
        d = F.FileStorage('/db/Dest.fs') if dest == 'file' else env.mappingstorage()
        from zverif.harness.c04 import SymTimeStamp
        real_ts = F.TimeStamp
        F.TimeStamp = SymTimeStamp          # FileIterator's scan-direction heuristic on raw values (see C04)
    try:
        if template.startswith('M'):
            class _Src:
                def iterator(self_):
                    return s_src.iterator(start if use_start else None, stop if use_stop else None)
            it = _Src()
        else:
            it = F.FileIterator(SRC, start if use_start else None, stop if use_stop else None)
    finally:
        F.TimeStamp = real_ts
    try:
        import ZODB.BaseStorage
        ZODB.BaseStorage.copy(it, d)          # what copyTransactionsFrom does (works for any destination)
    except Exception as ex:
        fail('copyTransactionsFrom raised', type(ex).__name__, str(ex)[:200])
    want = _range_model(m, start if use_start else None, stop if use_stop else None)
    with untraced():
        # records whose data lives in a transaction outside the copied range are copied by value
        if dest == 'file':
            B.full_battery(d, want, data_txn=False, history=False)
            B.q_iterator(d, want, data_txn=False)
            d.close()
            d2 = F.FileStorage('/db/Dest.fs')
            B.full_battery(d2, want, data_txn=False, history=False)
            d2.close()
        else:
            B.full_battery(d, want, data_txn=False, history=False, iterator=False, undo_log=False)
    reached()


# ---------------------------------------------------------------------------
# recover

def _candidates(data):
    """Every position of `data` at which a well-formed transaction parses -> {tid: [(pos, records)]}."""
    import struct
    out = {}
    n = len(data)
    for pos in range(4, n - 31 + 1):
        try:
            tid, tlen, status, ul, dl, el = struct.unpack('>8sQcHHH', data[pos:pos + 23])
        except struct.error:
            continue
        if status not in (b' ', b'p') or pos + tlen + 8 > n or tlen < 23 + ul + dl + el:
            continue
        if struct.unpack('>Q', data[pos + tlen:pos + tlen + 8])[0] != tlen:
            continue
        rpos = pos + 23 + ul + dl + el
        tend = pos + tlen
        recs = []
        ok = True
        while rpos < tend:
            if rpos + 42 > tend:
                ok = False
                break
            oid, rtid, prev, tloc, vlen, plen = struct.unpack('>8s8sQQHQ', data[rpos:rpos + 42])
            if vlen:
                ok = False
                break
            if plen:
                body = data[rpos + 42:rpos + 42 + plen]
                rlen = 42 + plen
            else:
                back = struct.unpack('>Q', data[rpos + 42:rpos + 50])[0]
                rlen = 50
                body = ('back', back)
            if rpos + rlen > tend:
                ok = False
                break
            recs.append((oid, body))
            rpos += rlen
        if ok and rpos == tend:
            out.setdefault(tid, []).append((pos, data[pos + 23:pos + 23 + ul + dl + el], recs))
    return out


class _Fixed:
    """A record body that is already resolved (wrapper so that _resolve passes it through)."""

    def __init__(self, v):
        self.v = v


class _Broken:
    """A back-pointer that does not lead to a record of the same object: nothing a faithful copy could contain."""

    def __eq__(self, other):
        return False

    def __ne__(self, other):
        return True


def _resolve(data, body, want_oid=None, depth=0):
    import struct
    if isinstance(body, _Fixed):
        return body.v
    if not isinstance(body, tuple):
        return body
    back = body[1]
    if back == 0:
        return None
    if depth > 20 or back + 42 > len(data):
        return _Broken()
    oid, rtid, prev, tloc, vlen, plen = struct.unpack('>8s8sQQHQ', data[back:back + 42])
    if want_oid is not None and oid != want_oid:
        # the one consistency check the format offers for a back-pointer (FileStorage makes it, too): it has to
        # lead to a record of the same object; a pointer into a damaged region does not
        return _Broken()
    if plen:
        return data[back + 42:back + 42 + plen]
    return _resolve(data, ('back', struct.unpack('>Q', data[back + 42:back + 50])[0]), want_oid, depth + 1)


def _judge(inp, outdata, damage_start, orig_txns, orig_bytes=None):
    """The recovery oracle.  inp: damaged input bytes; outdata: bytes of the recovered file.  orig_bytes (optional): the
    file before the damage - a recovered transaction may also equal the UNDAMAGED original (met when a redirected
    back-pointer still names the right transaction and restore() re-derives the pointer from that hint)."""
    try:
        out = fsparse.parse(outdata, check_rec_tid=False)   # a damaged record tid is copied as found
    except fsparse.BadFile as ex:
        fail('recovered file is not a well-formed data file', str(ex))
    cands = _candidates(inp)
    if orig_bytes is not None:
        for tid_, cs_ in _candidates(orig_bytes).items():
            for pos_, meta_, crecs_ in cs_:
                # resolved against the undamaged file, at the same position
                cands.setdefault(tid_, []).append((pos_, meta_, [(o_, _Fixed(_resolve(orig_bytes, b_, o_))) for o_, b_ in crecs_]))
    last_pos = -1
    for t in out:
        cs = cands.get(t.tid)
        check(cs, 'recovered transaction is not a transaction of the input (unknown id)', t.tid)
        recs = [(r.oid, fsparse.resolve(outdata, r)) for r in t.records]
        match = None
        for pos, meta, crecs in cs:
            if [(o, _resolve(inp, b, o)) for o, b in crecs] == recs and meta == t.user + t.desc + t.ext:
                match = pos
                break
        check(match is not None, 'recovered transaction differs from the input transaction with that id (records or metadata)', t.tid)
        check(match > last_pos, 'recovered transactions are not in input order', t.tid)
        last_pos = match
    got = set(t.tid for t in out)
    for t in orig_txns:
        if t.pos + t.tlen + 8 <= damage_start and t.status != 'u':
            check(t.tid in got, 'a transaction that ends before the damage was not recovered', t.tid, t.pos, damage_start)


def _run_recover(env, budget):
    _quiet()
    env.fs.read_fuel = budget
    note('budget', budget)
    import signal

    class _Stuck(BaseException):
        pass

    def _alarm(sig, frm):
        raise _Stuck()
    # (a loop that spins inside a buffered reader issues no further raw reads: a wall-clock watchdog backs the read budget up;
    # an ordinary run takes well under a second)
    old_handler = signal.signal(signal.SIGALRM, _alarm)
    signal.alarm(30)
    try:
        FR.recover(SRC, OUT, verbose=0, partial=False, force=True)
    except _Stuck:
        fail('fsrecover does not terminate (still running after 30 s on a file of %d bytes)' % len(env.fs.content(SRC)))
    except vfs.FuelExhausted:
        fail('fsrecover does not terminate (read budget of %d operations exhausted)' % budget)
    except SystemExit as ex:
        fail('fsrecover gave up', str(ex))
    finally:
        signal.alarm(0)
        signal.signal(signal.SIGALRM, old_handler)
        env.fs.read_fuel = None


def h_recover_clean(sel: int, stale_out: bool = False) -> None:
    """Undamaged file: the recovered storage answers every revision query like the source.  stale_out: the output
    path already holds an older data file (with its index) that the forced run has to replace."""
    names = ['T1', 'T2', 'T3', 'T4', 'T5', 'T6', 'T10', 'T12', 'T4U']
    k = choose(sel, len(names))
    with untraced():
        stale = None
        if stale_out:
            # (built first: the newest Env is the one the ZODB modules are bound to)
            env2, s2, h2 = T.build_file('T2L')
            s2.close()
            stale = bytes(env2.fs.content(SRC)), bytes(env2.fs.content(SRC + '.index'))
        env, s, m_ = _source(names[k])
        if stale:
            env.fs.put(OUT, stale[0])
            env.fs.put(OUT + '.index', stale[1])

        class _H:
            m = m_
        h = _H
        s.close()
        size = len(env.fs.content(SRC))
        _run_recover(env, 8 * size + 400)
        d = F.FileStorage(OUT)
        B.full_battery(d, h.m, data_txn=False)
        d.close()
    reached()


def h_recover_truncated(cut: int, template: str) -> None:
    """Input truncated at a solver-chosen length (every length of the file is a path)."""
    with untraced():
        env, s, h = T.build_file(template)
        s.close()
        full = bytes(env.fs.content(SRC))
        orig = fsparse.parse(full)
    n = pick(cut, 4, len(full) + 1)
    with untraced():
        env.fs.put(SRC, full[:n])
        env.fs.os.remove(SRC + '.index')
        _run_recover(env, 8 * len(full) + 400)
        outdata = bytes(env.fs.content(OUT))
        try:
            out = fsparse.parse(outdata)
        except fsparse.BadFile as ex:
            fail('recovered file is not a well-formed data file', str(ex))
        live = [t for t in orig if t.status != 'u']
        k = len(out)
        check(k <= len(live), 'more transactions recovered than the input has')
        for a, b in zip(out, live):
            check(a.tid == b.tid and [(r.oid, fsparse.resolve(outdata, r)) for r in a.records]
                  == [(r.oid, fsparse.resolve(full, r)) for r in b.records] and (a.user, a.desc, a.ext) == (b.user, b.desc, b.ext),
                  'recovered transaction differs from the input transaction (id, order, records or metadata)', a.tid)
        for i, t in enumerate(live):
            if t.pos + t.tlen + 8 <= n:
                check(i < k, 'a complete transaction before the cut was not recovered', t.tid, t.pos + t.tlen + 8, n)
            else:
                check(i >= k, 'a transaction that is not completely inside the input was recovered', t.tid, n)
        d = F.FileStorage(OUT)
        B.full_battery(d, RevStore(h.m.txns[:k]), data_txn=False)
        d.close()
    reached()


CLASSES = [b'.', b'c', b' ', b'p', b'u', b'\x00', b'\xff', b'\x17']


def h_recover_damaged(off: int, template: str, nbytes: int, cls: int) -> None:
    """`nbytes` bytes at offset `off` replaced by a byte of class `cls`."""
    with untraced():
        env, s, m_ = _source(template)
        s.close()
        full = bytes(env.fs.content(SRC))
        orig = fsparse.parse(full)
    d = pick(off, 4, len(full) - nbytes + 1)
    with untraced():
        dmg = full[:d] + CLASSES[cls] * nbytes + full[d + nbytes:]
        assume(dmg != full)
        env.fs.put(SRC, dmg)
        env.fs.os.remove(SRC + '.index')
        _run_recover(env, 8 * len(full) + 400)
        _judge(dmg, bytes(env.fs.content(OUT)), d, orig)
        dst = F.FileStorage(OUT)          # and the result opens as a storage
        dst.close()
    reached()


def h_recover_backptr(rsel: int, tsel: int, template: str) -> None:
    """The 8 bytes of a back-pointer (solver-chosen record) are replaced by the position of a solver-chosen data record
    of the file - an earlier one, the record itself, or a later one (a pointer that does not lead backwards can close a
    cycle).  The recovery tool terminates and emits only unchanged input transactions."""
    with untraced():
        import struct
        env, s, m_ = _source(template)
        s.close()
        full = bytes(env.fs.content(SRC))
        orig = fsparse.parse(full)
        recs = []            # (position of the data record, has a back-pointer)
        for t in orig:
            for r in t.records:
                recs.append((r.pos, r.plen == 0))
        ptrs = [p_ for p_, isback in recs if isback]
        assume(ptrs)
    victim = ptrs[choose(rsel, len(ptrs))]
    target = recs[choose(tsel, len(recs))][0]
    with untraced():
        dmg = full[:victim + 42] + struct.pack('>Q', target) + full[victim + 50:]
        assume(dmg != full)
        note('case', 'self' if target == victim else ('back' if target < victim else 'forward'))
        env.fs.put(SRC, dmg)
        env.fs.os.remove(SRC + '.index')
        _run_recover(env, 8 * len(full) + 400)
        _judge(dmg, bytes(env.fs.content(OUT)), victim, orig, orig_bytes=full)
        dst = F.FileStorage(OUT)
        dst.close()
    reached()



def h_blob_copy(u1: bool, w3: bool, u2: bool, with_new: int, packsel: int, dest: str) -> None:
    """A source with blobs (solver-chosen history of writes, undos - incl. undo of a creation - and packs) is
    copied with copyTransactionsFrom into a blob-aware destination: same transactions and records, and for
    every blob revision of the source the destination serves a blob file with the same bytes.
    Runs on a scratch directory of the real file system (blob files are io.FileIO objects), like C13."""
    import os
    from zverif.harness import c13
    pk = ['pack', 'pack_mid', 'nothing'][choose(packsel, 3)]
    wn = choose(with_new, 3)
    codes = (['new'] if wn == 1 else []) + ['rewrite0', 'commit'] + (['new'] if wn == 2 else []) + ['append0', 'commit'] \
        + (['undo'] if u1 else []) + (['consume0', 'commit'] if w3 else []) + (['undo'] if u2 else []) + [pk]
    codes = [x for x in codes if x != 'nothing']
    with untraced():
        import ZODB.blob
        import ZODB.MappingStorage
        w = c13.BlobWorld('file')
        d = None
        try:
            w.new(False)
            w.commit()
            for code in codes:
                if c13._step(w, code, True) is None:
                    assume(False)
            note('prog', ' '.join(codes))
            ddir = os.path.join(w.dir, 'dest')
            os.mkdir(ddir)
            if dest == 'file':
                d = F.FileStorage(os.path.join(ddir, 'Copy.fs'), blob_dir=os.path.join(ddir, 'blobs'))
            else:
                d = ZODB.blob.BlobStorage(os.path.join(ddir, 'blobs'), F.FileStorage(os.path.join(ddir, 'Copy.fs')))
            d.copyTransactionsFrom(w.s)
            src = [B.txn_view(t) for t in w.s.iterator()]
            got = [B.txn_view(t) for t in d.iterator()]
            check(got == src, 'the copy iterates other transactions / records than the source')
            for name, rs in w.revs.items():
                for tid, data, _src in rs:
                    oid = w.oid[name]
                    try:
                        fn = d.loadBlob(oid, tid)
                    except Exception as ex:
                        fail('the copy has no blob file for a blob revision of the source', name, tid, type(ex).__name__)
                    with open(fn, 'rb') as fh:
                        check(fh.read() == data, 'blob bytes in the copy differ from the source', name, tid)
            # and nothing else: every *.blob file of the copy belongs to a revision of the source
            want = set(d.fshelper.getBlobFilename(w.oid[n_], r[0]) for n_, rs in w.revs.items() for r in rs)
            have = set()
            for dp, dn, fn in os.walk(os.path.join(ddir, 'blobs')):
                for f in fn:
                    if f.endswith('.blob'):
                        have.add(os.path.join(dp, f))
            check(have == want, 'the copy holds blob files that are not blob revisions of the source',
                  sorted(os.path.relpath(p_, ddir) for p_ in have ^ want))
        finally:
            if d is not None:
                d.close()
            w.destroy()
    reached()


_SRC = ['T1', 'T2', 'T4', 'T4U', 'T5', 'T6']
HARNESSES = [
    Harness('copy', h_copy,
            decides='copyTransactionsFrom(source.iterator(start, stop)) gives a destination that answers every revision query '
                    'like the copied range of the source (ids, status, metadata, records, un-creations), also after reopen',
            symbolic='start, stop (8 free bytes each; which bounds are used is a shard)',
            bounds='source templates per shard; destinations file / mapping', oracle='RevStore of the range', pure_python=True,
            code=['BaseStorage.copy/copyTransactionsFrom', 'FileStorage.restore', '_data_find', '_txn_find', 'FileIterator',
                  'TransactionRecordIterator'],
            quick=dict(timeout=170, shards=shards(template=['T4', 'T5'], dest=['file'], use_start=[True], use_stop=[False])
                       + shards(template=['T4'], dest=['file'], use_start=[False], use_stop=[True])
                       + shards(template=['T1', 'T2', 'T6', 'PACKED', 'T12', 'M1', 'M2', 'T4U'], dest=['file'], use_start=[False], use_stop=[False])
                       + shards(template=['T1', 'T3'], dest=['mapping'], use_start=[False], use_stop=[False])),
            thorough=dict(timeout=900, shards=shards(template=_SRC + ['PACKED', 'T12', 'M1', 'M2', 'M3'], dest=['file'], use_start=[True, False], use_stop=[True, False])
                          + shards(template=['T1', 'T3'], dest=['mapping'], use_start=[True, False], use_stop=[False]))),
    Harness('blob_copy', h_blob_copy,
            decides='copyTransactionsFrom between blob-aware storages reproduces every transaction and record and, for every blob '
                    'revision the source holds (incl. revisions written by undo, after packs), a blob file with the same bytes - and no others',
            symbolic='history selectors: undo after the 2nd write, a 3rd write, undo at the end, a second blob (none / in txn 1 / in txn 2), '
                     'pack (to now / to an earlier time / none)', bounds='<= 2 blobs, <= 6 source transactions; destination FileStorage+blob_dir or BlobStorage(FileStorage)',
            oracle='C13 model of committed blob revisions + iteration of the source',
            code=['ZODB.blob.copyTransactionsFromTo', 'BlobStorageMixin.restoreBlob/loadBlob/is_blob_record', 'FileStorage.restore', 'FileIterator'],
            quick=dict(timeout=200, shards=shards(dest=['file', 'blobproxy'])),
            thorough=dict(timeout=600, shards=shards(dest=['file', 'blobproxy']))),
    Harness('recover_backptr', h_recover_backptr,
            decides='with the back-pointer of any undo record redirected to any data record of the file (earlier, itself, later) the '
                    'recovery tool terminates and emits only unchanged input transactions',
            symbolic='record selector (records with a back-pointer), target selector (all data records)', bounds='templates T4, T12',
            oracle='independent parser + read budget', code=['fsrecover.recover', 'FileStorageFormatter._loadBack_impl', 'TransactionRecordIterator'],
            quick=dict(timeout=100, shards=shards(template=['T4', 'T12'])), thorough=dict(timeout=300, shards=shards(template=['T4', 'T5', 'T12']))),
    Harness('recover_clean', h_recover_clean,
            decides='fsrecover on an undamaged file reproduces the history (every revision query)',
            symbolic='template selector', bounds='templates T1-T6, T10, T12, T4U', oracle='RevStore battery',
            code=['fsrecover.recover', 'read_txn_header', 'FileStorage.restore'],
            quick=dict(timeout=100), thorough=dict(timeout=300)),
    Harness('recover_truncated', h_recover_truncated,
            decides='fsrecover on a file truncated at any length terminates, recovers every complete transaction before the cut '
                    'and outputs only input transactions, unchanged and in order',
            symbolic='cut (truncation length, solver-chosen over every length of the file; fsrecover runs on the concrete truncated file)',
            bounds='templates per shard (300-700 byte files)', oracle='independent parser over input and output',
            code=['fsrecover.recover', 'read_txn_header', 'scan', 'truncate', 'copy'],
            quick=dict(timeout=170, shards=shards(template=['T1', 'T4'])),
            thorough=dict(timeout=900, shards=shards(template=_SRC))),
    Harness('recover_damaged', h_recover_damaged,
            decides='fsrecover on a file with a damaged region terminates, recovers every transaction ending before the damage, '
                    'and outputs only transactions of the input with unchanged ids, order and record bytes',
            symbolic='offset of the damage (solver-chosen over the whole file); length and byte class are shards',
            bounds='one region of 1 or 4 bytes; 8 byte classes; templates per shard', oracle='independent parser over input and output',
            code=['fsrecover.recover', 'read_txn_header', 'scan', 'TransactionRecord iteration'],
            quick=dict(timeout=170, shards=shards(template=['T1'], nbytes=[1], cls=[0, 1, 5, 6]) + shards(template=['T4'], nbytes=[4], cls=[0, 2, 6, 7])
                       + shards(template=['T4', 'T12'], nbytes=[64], cls=[5])),
            thorough=dict(timeout=900, shards=shards(template=['T1', 'T4', 'T5'], nbytes=[1, 4], cls=list(range(8))) + shards(template=['T2', 'T4', 'T5', 'T12'], nbytes=[64, 200], cls=[5, 6]))),
]

MANIFEST = dict(
    text='Copy: bounded symbolic execution of iterator + copyTransactionsFrom/restore with the iterator range as free '
         '8-byte values over histories containing undo records, un-creations, hinted restores and a packed prefix. '
         'Recover: fsrecover executed by CrossHair on inputs whose truncation length is symbolic, and on inputs whose '
         'damaged region (offset) is chosen by the solver with length/byte-class shards; an independent parser judges that '
         'the tool terminates, keeps everything before the damage and emits only unchanged input transactions in order.',
    note='damage = one region (truncation, 1/4/8 replaced bytes of 8 classes, or 64/200 zero / 0xff bytes) - for replaced bytes the solver enumerates '
         'offsets and fsrecover runs on the concrete file (selector mode, stated); blob copying (copyTransactionsFromTo) is driven by '
         'blob_copy on a real scratch directory; MappingStorage sources M1-M3; read budget 60 ops/byte stands for termination.',
    design_ref='DESIGN.md section 4, C17',
)
