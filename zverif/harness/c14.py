"""C14 - object graphs round-trip and reference extraction is exact.

Extraction (H-ARG, fully symbolic oids): a record is assembled from real pickle fragments in
which every persistent reference - one of the seven reference formats, chosen by a symbolic
selector per slot - carries 8 SYMBOLIC oid bytes.  referencesf / get_refs (and the pure-Python
unpickler underneath) run under CrossHair; the result must be exactly the oids of the
ordinary (strong, same-database) references, in order, as bytes - for every byte pattern,
all-ASCII ones included.
Round trip (H-PROG): adjacency bits of a small graph, node kinds and the use of explicit
add() are symbolic; the graph is stored through one connection and loaded through another.
"""
import io
import sys

import ZODB.serialize as SER

from zverif import pobj
from zverif import templates as T
from zverif.api import assume, check, fail, reached, untraced, choose, realize, note, traced
from zverif.spec import Harness, shards
from zverif.symenv import codec

codec.install()

ASSUMPTIONS = [
    'the byte stream handed to the unpickler is a sequence of segments (concrete pickle fragments, symbolic 8-byte oids); '
    'ZODB.serialize.BytesIO is rebound to a Python reader over segments (behaviourally io.BytesIO for read/readline)',
    'pure-Python zodbpickle (PURE_PYTHON=1) executes symbolically in place of the C unpickler; counterexamples are replayed '
    'with the C unpickler on real bytes',
    'round trip: graphs of <= 4 nodes; node kinds PersistentMapping, class with __getnewargs__, plain containers in '
    'between, weak references; object attribute values concrete',
]

FORMATS = ['oid', 'oid_class', 'weak', 'weak_db', 'multi', 'multi_class', 'legacy_str', 'legacy_str_class']
STRONG = {'oid', 'oid_class', 'legacy_str', 'legacy_str_class'}


class SegBytes:
    """A byte string kept as segments so that concrete parts stay concrete."""

    def __init__(self, segments):
        self.segments = segments


class SegBytesIO:
    """io.BytesIO(read/readline) over segments."""

    def __init__(self, p=b''):
        if isinstance(p, SegBytes):
            self.segs = list(p.segments)
        else:
            self.segs = [p] if len(p) else []
        self.i = 0          # current segment
        self.off = 0        # offset inside it

    def write(self, b):
        self.segs.append(b)
        return len(b)

    def getvalue(self):
        return SegBytes(list(self.segs))

    def tell(self):
        return sum(len(x) for x in self.segs[:self.i]) + self.off

    def read(self, n=-1):
        out = None
        while (n is None or n < 0 or n > 0) and self.i < len(self.segs):
            seg = self.segs[self.i]
            avail = len(seg) - self.off
            if avail <= 0:
                self.i += 1
                self.off = 0
                continue
            take = avail if (n is None or n < 0) else min(avail, n)
            piece = seg[self.off:self.off + take]
            self.off += take
            if n is not None and n >= 0:
                n -= take
            out = piece if out is None else out + piece
        return b'' if out is None else out

    def readline(self):
        out = b''
        while True:
            c = self.read(1)
            if not c:
                return out
            out = out + c
            if c == b'\n':
                return out


class _Marker:
    def __init__(self, i, fmt):
        self.i = i
        self.fmt = fmt


def _placeholder(i):
    return b'\xf7PL\xf8HD' + bytes([0xe0 + i, 0xf9])


def _pid(mk):
    from zodbpickle import binary
    from zverif.pobj import PObj as _K      # a persistent class for (oid, class) references
    oid = binary(_placeholder(mk.i))
    f = mk.fmt
    if f in ('oid', 'legacy_str'):
        return oid
    if f in ('oid_class', 'legacy_str_class'):
        return (oid, _K)
    if f == 'weak':
        return ['w', (oid,)]
    if f == 'weak_db':
        return ['w', (oid, 'otherdb')]
    if f == 'multi':
        return ['n', ('otherdb', oid)]
    if f == 'multi_class':
        return ['m', ('otherdb', oid, _K)]
    if f == 'oid_class_gone':
        return (oid, gone_class())
    if f == 'multi_class_gone':
        return ['m', ('otherdb', oid, gone_class())]
    raise ValueError(f)


GONE = ('zverif_module_that_is_gone', 'Gone')
_gone = []


def gone_class():
    """A persistent class that can be pickled by reference now (its module is registered while records are made)
    and cannot be imported when the record is read: call gone_forget() before reading."""
    import sys
    import types
    import persistent
    if not _gone:
        m = types.ModuleType(GONE[0])
        k = type(GONE[1], (persistent.Persistent,), {'__module__': GONE[0]})
        setattr(m, GONE[1], k)
        _gone.append((m, k))
    sys.modules[GONE[0]] = _gone[0][0]
    return _gone[0][1]


def gone_forget():
    import sys
    sys.modules.pop(GONE[0], None)


def make_record(fmts, shape):
    """Real pickles (class meta + state) with placeholders -> list of concrete fragments and slot order."""
    from ZODB._compat import PersistentPickler, _protocol
    import zverif.pobj as pobj
    marks = [_Marker(i, f) for i, f in enumerate(fmts)]
    if shape == 'flat':
        state = {'a%d' % i: m for i, m in enumerate(marks)}
    elif shape == 'nested':
        state = {'lst': [1, marks[0], ('t', marks[1:2] and marks[1])], 'd': {'k': marks[2:3] and marks[2]}, 'n': 5}
    else:
        state = (marks, {'same-again': marks[0]})
    f = io.BytesIO()
    p = PersistentPickler(lambda o: _pid(o) if isinstance(o, _Marker) else None, f, _protocol)
    p.dump(pobj.PObj)
    p.dump(state)
    raw = f.getvalue()
    # legacy formats: the oid was pickled by Python 2 as a str (SHORT_BINSTRING 'U') instead of bytes ('C')
    for i, fm in enumerate(fmts):
        if fm.startswith('legacy_str'):
            ph = _placeholder(i)
            raw = raw.replace(b'C\x08' + ph, b'U\x08' + ph)
    return raw


def split(raw, n):
    """-> [frag0, slot_index, frag1, ...] in stream order (a memoised oid appears once)."""
    parts = []
    pos = 0
    while True:
        best = None
        for i in range(n):
            j = raw.find(_placeholder(i), pos)
            if j >= 0 and (best is None or j < best[0]):
                best = (j, i)
        if best is None:
            parts.append(raw[pos:])
            return parts
        parts.append(raw[pos:best[0]])
        parts.append(best[1])
        pos = best[0] + 8


def h_referencesf(o0: bytes, o1: bytes, o2: bytes, f0: int, f1: int, f2: int, shape: str, nrefs: int) -> None:
    oids = [o0, o1, o2][:nrefs]
    for o in oids:
        assume(len(o) == 8)
    for o in [o0, o1, o2][nrefs:]:
        assume(len(o) == 0)
    sel = [f0, f1, f2]
    fmts = []
    for i in range(3):
        if i < nrefs:
            fmts.append(FORMATS[choose(sel[i], len(FORMATS))])
        else:
            assume(sel[i] == 0)
    for i in range(nrefs):
        if fmts[i].startswith('legacy_str'):
            # an oid stored as a (Python 2) str is by construction all-ASCII: other oids were written as bytes
            for j in range(8):
                assume(oids[i][j] < 0x80)
    with untraced():
        raw = make_record(fmts, shape)
        parts = split(raw, nrefs)
        order = [p for p in parts if isinstance(p, int)]
        real = SER.BytesIO
        SER.BytesIO = SegBytesIO
    try:
        rec = SegBytes([oids[p] if isinstance(p, int) else p for p in parts])
        got = SER.referencesf(rec)
        refs = SER.get_refs(rec)
        supplied = []
        for mine in ([], [b'already-there']):
            n0 = len(mine)
            supplied.append((n0, mine, SER.referencesf(rec, mine)))
    finally:
        SER.BytesIO = real
    # which slots are referenced, in stream order (a shared object is memoised by the pickler: one entry per use)
    with untraced():
        import zodbpickle.pickle
        seen = []
        u = zodbpickle.pickle.Unpickler(io.BytesIO(raw), encoding='ASCII', errors='bytes')
        u.persistent_load = seen.append
        u.load()
        u.load()

        def slot_of(ref):
            x = ref
            while isinstance(x, (list, tuple)):
                cand = [y for y in x if isinstance(y, (bytes, str, tuple, list))]
                x = None
                for y in cand:
                    if isinstance(y, (bytes, str)) and len(y) == 8 and (y if isinstance(y, bytes) else y.encode('latin-1'))[:6] == _placeholder(0)[:6]:
                        x = y
                        break
                    if isinstance(y, (tuple, list)):
                        x = y
                if x is None:
                    return None
            b = x if isinstance(x, bytes) else x.encode('latin-1')
            return b[6] - 0xe0
        uses = [slot_of(r) for r in seen]
    want = [oids[i] for i in uses if fmts[i] in STRONG]
    check(len(got) == len(want), 'number of extracted references differs', len(got), len(want), fmts)
    for g, w in zip(got, want):
        check(isinstance(g, bytes), 'extracted oid is not bytes', type(g).__name__)
        check(g == w, 'extracted oid differs from the referenced oid', g, w, fmts)
    # the list a caller supplies is the one that is filled (an empty one, and one that already holds entries)
    for n0, mine, ret in supplied:
        check(ret is mine, 'referencesf did not return the list it was given')
        check(len(mine) == n0 + len(want), 'referencesf did not append to the list it was given', n0, len(mine), len(want))
        for g, w in zip(mine[n0:], want):
            check(g == w, 'extracted oid (into a supplied list) differs from the referenced oid', g, w)
    # get_refs: (oid, class-info) for the same references
    check(len(refs) == len(want), 'get_refs: number of references differs', len(refs), len(want))
    for (g, k), w in zip(refs, want):
        check(g == w, 'get_refs: oid differs', g, w)
    reached()


# ---------------------------------------------------------------------------
# Round trip through two connections

def h_roundtrip(e0: bool, e1: bool, e2: bool, e3: bool, e4: bool, e5: bool, e6: bool, e7: bool, e8: bool,
                kinds: int, explicit_add: bool, storage: str, reset: bool = False) -> None:
    """3 fresh nodes + root; e0..e8 = adjacency bits (root->i, then i->j), kinds = base-3 digits per node."""
    a = 0
    for i, e in enumerate((e0, e1, e2, e3, e4, e5, e6, e7, e8)):
        if e:
            a |= 1 << i
    kk = kinds
    with untraced():
        import transaction
        import ZODB
        import persistent
        from persistent.mapping import PersistentMapping as PM
        from persistent.wref import WeakRef
        from zverif import pobj
        env = T.Env()
        s = env.filestorage() if storage == 'file' else env.mappingstorage()
        db = ZODB.DB(s)
        tm = transaction.TransactionManager()
        c = db.open(tm)
        root = c.root()
        n = 3
        kind = [(kk // (3 ** i)) % 3 for i in range(n)]
        nodes = []
        for i in range(n):
            if kind[i] == 0:
                nodes.append(PM())
            elif kind[i] == 1:
                nodes.append(pobj.PNewArgs('node%d' % i))
            else:
                nodes.append(pobj.PObj(name='node%d' % i, data={}))
        # states of different sizes (later records of one writer are shorter than earlier ones and vice versa)
        for i in range(n):
            pad = 'pad-%d-' % i * (1 + 9 * ((i + 1) % 3))
            if isinstance(nodes[i], PM):
                nodes[i]['pad'] = pad
            else:
                nodes[i].data['pad'] = pad
        bit = 0
        edges = []

        def setref(src, name, dst, via):
            # via 0: direct attribute, 1: inside a plain list, 2: weak reference
            if via == 1:
                val = ['plain', {'deep': dst}]
            elif via == 2:
                val = WeakRef(dst)
            else:
                val = dst
            if isinstance(src, PM):
                src[name] = val
            else:
                src.data[name] = val
                src._p_changed = True
        for i in range(n):                     # root -> i
            if a >> bit & 1:
                setref(root, 'n%d' % i, nodes[i], i % 2)
                edges.append(('root', i, i % 2))
            bit += 1
        for i in range(n):                     # i -> j (i != j), 6 bits
            for j in range(n):
                if i != j:
                    if a >> bit & 1:
                        via = (i + j) % 3
                        setref(nodes[i], 'to%d' % j, nodes[j], via)
                        edges.append((i, j, via))
                    bit += 1
        if explicit_add:
            c.add(nodes[2])
        tm.commit()
        # model: reachable from root.  A weak reference to a NEW object also causes it to be stored (the
        # reference would dangle otherwise); weak edges are only excluded from reference extraction.
        strong = {}
        for src, dst, via in edges:
            strong.setdefault(src, []).append(dst)
        reach = set()
        todo = list(strong.get('root', []))
        if explicit_add:
            todo.append(2)
        while todo:
            x = todo.pop()
            if x in reach:
                continue
            reach.add(x)
            todo.extend(strong.get(x, []))
        for i in range(n):
            stored = nodes[i]._p_oid is not None
            check(stored == (i in reach), 'new object stored iff reachable from a stored object or added explicitly',
                  i, stored, sorted(reach), edges)
        # every stored record: references exactly the strong out-edges, and embeds no other object's state
        from ZODB.utils import load_current
        for i in sorted(reach):
            data, _ = load_current(s, nodes[i]._p_oid)
            check(pobj.trailing_bytes(data) == 0, 'a stored record holds bytes beyond its two pickles', i, pobj.trailing_bytes(data))
            refs = SER.referencesf(data)
            want = sorted(nodes[j]._p_oid for (src, j, via) in edges if src == i and via != 2)
            check(sorted(set(refs)) == sorted(set(want)), 'record references differ from the strong out-edges', i, refs, want)
            for j in range(n):
                if j != i:
                    check(('node%d' % j).encode() not in data, 'record embeds the state of another persistent object', i, j)
        # load through another connection: isomorphic graph, one object per oid
        tm2 = transaction.TransactionManager()
        c2 = db.open(tm2)
        if reset:
            # ZODB.Connection.resetCaches(): pooled connections get a fresh object cache when they are opened next
            import ZODB.Connection
            c2.root()._p_activate()
            c2.close()
            ZODB.Connection.resetCaches()
            c2 = db.open(tm2)
        r2 = c2.root()
        seen = {}

        def get(obj, name):
            v = obj[name] if isinstance(obj, PM) else obj.data[name]
            if isinstance(v, list):
                v = v[1]['deep']
            elif isinstance(v, WeakRef):
                v = v()
            return v

        def walk(obj, idx):
            if idx in seen:
                check(seen[idx] is obj, 'two in-memory objects for one oid in one connection', idx)
                return
            seen[idx] = obj
            check(obj._p_oid == nodes[idx]._p_oid, 'reference leads to an object with a different oid', idx)
            check(type(obj) is type(nodes[idx]), 'loaded object has a different class', idx)
            if not isinstance(obj, PM):
                check(obj.name == 'node%d' % idx, 'loaded state differs', idx)
            for (src, j, via) in edges:
                if src == idx:
                    walk(get(obj, 'to%d' % j), j)
        for (src, i, via) in edges:
            if src == 'root':
                walk(get(r2, 'n%d' % i), i)
        check(set(seen) <= reach, 'loaded graph contains an object that was not stored')
        # what references lead to is what the connection itself hands out for the id
        for idx, ob in seen.items():
            check(c2.get(ob._p_oid) is ob, 'connection.get(oid) is another object than the one references lead to', idx)
        tm2.abort()
        tm.abort()
        db.close()
    reached()


# ---------------------------------------------------------------------------
# Cross-database references

def h_multidb_refs(x0: bool, x1: bool, x2: bool, x3: bool, y0: bool, y1: bool, y2: bool, y3: bool,
                   kinds: int, preload: int, storage: str) -> None:
    """Two databases with independently allocated (hence colliding) oids; nodes a0,a1 in database one and
    b0,b1 in database two; x/y = cross-database edges a_i->b_j / b_i->a_j.  Loaded through a fresh connection
    group - with the referring connection's cache empty or already holding its own objects - every
    cross-database reference leads to the object with that id IN THE NAMED DATABASE, one object per id per
    connection."""
    xs = (x0, x1, x2, x3)
    ys = (y0, y1, y2, y3)
    pl = choose(preload, 3)            # 0: nothing loaded before following references, 1: own objects loaded, 2: targets loaded first
    with untraced():
        from persistent.mapping import PersistentMapping as PM
        from zverif import multidb
        from zverif import pobj
        w = multidb.Multi(storage)
        try:
            kind = [(kinds // (3 ** i)) % 3 for i in range(4)]

            def mk(i, nm):
                if kind[i] == 0:
                    return PM(name=nm)
                if kind[i] == 1:
                    return pobj.PNewArgs(nm)
                return pobj.PObj(name=nm, data={})
            A = [mk(0, 'a0'), mk(1, 'a1')]
            Bn = [mk(2, 'b0'), mk(3, 'b1')]
            for i in range(2):
                w.c1.root()['a%d' % i] = A[i]
                w.c2.root()['b%d' % i] = Bn[i]
            w.tm.commit()
            check(all(o._p_jar is w.c1 for o in A) and all(o._p_jar is w.c2 for o in Bn), 'new objects stored in the wrong database')

            def setref(src, name, dst, via):
                val = ['plain', {'deep': dst}] if via else dst
                if isinstance(src, PM):
                    src[name] = val
                else:
                    src.data[name] = val
                    src._p_changed = True

            def get(obj, name):
                v = obj[name] if isinstance(obj, PM) else obj.data[name]
                return v[1]['deep'] if isinstance(v, list) else v

            def nameof(obj):
                return obj['name'] if isinstance(obj, PM) else obj.name
            edges = []
            for k in range(4):
                i, j = divmod(k, 2)
                if xs[k]:
                    setref(A[i], 'x%d' % j, Bn[j], (i + j) % 2)
                    edges.append(('a', i, 'x%d' % j, 'b', j))
                if ys[k]:
                    setref(Bn[i], 'y%d' % j, A[j], (i + j + 1) % 2)
                    edges.append(('b', i, 'y%d' % j, 'a', j))
            w.tm.commit()
            note('edges', len(edges))
            tm, c1, c2 = w.fresh_pair()
            try:
                conn = {'a': c1, 'b': c2}
                orig = {'a': A, 'b': Bn}
                if pl == 1:
                    for d in 'ab':
                        for i in range(2):
                            nameof(conn[d].root()['%s%d' % (d, i)])
                for (sd, i, nm, td, j) in (edges if pl != 2 else list(reversed(edges))):
                    src = conn[sd].root()['%s%d' % (sd, i)]
                    tgt = get(src, nm)
                    want = orig[td][j]
                    check(tgt._p_jar is conn[td], 'cross-database reference leads to an object of another connection / database', sd, i, td, j)
                    check(tgt._p_oid == want._p_oid, 'cross-database reference leads to an object with a different id', sd, i, td, j)
                    check(type(tgt) is type(want), 'object reached through a cross-database reference has another class', sd, i, td, j,
                          type(tgt).__name__, type(want).__name__)
                    check(nameof(tgt) == '%s%d' % (td, j), 'object reached through a cross-database reference has another state', sd, i, td, j)
                    check(tgt is conn[td].root()['%s%d' % (td, j)], 'two in-memory objects for one id in one connection (cross-database)', td, j)
            finally:
                tm.abort()
                c1.close()
        finally:
            w.close_all()
    reached()


def h_export_import(e01: bool, e02: bool, e12: bool, e10: bool, e20: bool, e21: bool, sp: bool, storage: str) -> None:
    """exportFile of the sub-graph below a node, importFile into another connection: the copy is an equal graph
    (values, edges, sharing and cycles), made of new objects of the importing connection, and it commits and loads.
    storage 'demo' declares blob support (the export then also looks for blob files); sp: the export is made
    inside a transaction with a savepoint (the connection then reads through its savepoint store)."""
    edges = {(0, 1): e01, (0, 2): e02, (1, 2): e12, (1, 0): e10, (2, 0): e20, (2, 1): e21}
    with untraced():
        import transaction
        import ZODB
        import ZODB.DemoStorage
        env = T.Env()
        if storage == 'demo':
            s = ZODB.DemoStorage.DemoStorage(base=env.mappingstorage())
        else:
            s = env.filestorage() if storage == 'file' else env.mappingstorage()
        db = ZODB.DB(s)
        tm = transaction.TransactionManager()
        c = db.open(tm)
        nodes = [pobj.PObj(v=10 + i) for i in range(3)]
        for (a, b), on in edges.items():
            if on:
                setattr(nodes[a], 'to%d' % b, nodes[b])
        for i, n_ in enumerate(nodes):
            c.root()['n%d' % i] = n_            # all three are stored, whatever the edges
        tm.commit()
        if sp:
            c.root()['unrelated'] = 1
            tm.savepoint()
        f = io.BytesIO()
        c.exportFile(nodes[0]._p_oid, f)
        if sp:
            tm.abort()
        f.seek(0)
        tm2 = transaction.TransactionManager()
        c2 = db.open(tm2)
        copy = c2.importFile(f)
        c2.root()['copy'] = copy
        try:
            tm2.commit()
        except Exception as ex:
            fail('commit of an imported graph failed', type(ex).__name__, str(ex)[:120])
        c3 = db.open(transaction.TransactionManager())
        originals = set(n_._p_oid for n_ in nodes)
        seen = {}

        def walk(orig_i, cp, where):
            if orig_i in seen:
                check(seen[orig_i] is cp, 'sharing lost: two paths to one original lead to different copies', where)
                return
            seen[orig_i] = cp
            try:
                v = cp.v
            except Exception as ex:
                fail('imported graph has a reference that cannot be loaded', where, type(ex).__name__)
            check(v == 10 + orig_i, 'imported node has another value', where, v)
            check(cp._p_oid not in originals, 'imported node is not a new object', where)
            for b in range(3):
                has = edges.get((orig_i, b), False)
                check(hasattr(cp, 'to%d' % b) == bool(has), 'imported node has other edges than the original', where, b)
                if has:
                    walk(b, getattr(cp, 'to%d' % b), where + '.to%d' % b)
        walk(0, c3.root()['copy'], 'copy')
        for cc in (c, c2, c3):
            cc.close()
        db.close()
    reached()


APP = 'zverif_app_module_c14'


class _AppFinder:
    """Import machinery stand-in for an application module that has changed since the data were stored."""

    def __init__(self, mode):
        self.mode = mode

    def find_spec(self, name, path=None, target=None):
        import importlib.machinery
        if name != APP or self.mode == 'gone':
            return None                      # -> ModuleNotFoundError
        return importlib.machinery.ModuleSpec(name, self)

    def create_module(self, spec):
        return None

    def exec_module(self, module):
        if self.mode == 'refuses':
            raise ImportError('the module refuses to load (a name it imports from elsewhere is gone)')
        # mode 'renamed': the module loads, the classes are no longer in it


def h_missing_class(mode: int, rewrite: bool, storage: str) -> None:
    """Records of classes that cannot be found any more - module gone, module failing to import, class no longer in
    the module (solver-chosen) - load as placeholders that keep the stored state; the rest of the graph is intact,
    references can still be extracted, and writing the containing object again loses nothing."""
    md = ['gone', 'refuses', 'renamed'][choose(mode, 3)]
    with untraced():
        import sys
        import types
        import persistent
        import transaction
        import ZODB
        import ZODB.broken
        from ZODB.interfaces import IBroken
        from ZODB.serialize import referencesf
        from ZODB.utils import load_current
        env = T.Env()
        s = env.filestorage() if storage == 'file' else env.mappingstorage()
        m = types.ModuleType(APP)
        Thing = type('Thing', (persistent.Persistent,), {'__module__': APP})
        Part = type('Part', (object,), {'__module__': APP})
        m.Thing, m.Part = Thing, Part
        sys.modules[APP] = m
        finder = _AppFinder(md)
        try:
            db = ZODB.DB(s)
            tm = transaction.TransactionManager()
            c = db.open(tm)
            t = Thing()
            t.name, t.n = 'thing', 7
            p = Part()
            p.label = 'plain part'
            c.root()['thing'] = t
            c.root()['part'] = p
            c.root()['other'] = pobj.PObj(v=3)
            tm.commit()
            toid = t._p_oid
            ooid = c.root()['other']._p_oid
            c.close()
            # the application changes
            del sys.modules[APP]
            sys.meta_path.insert(0, finder)
            ZODB.broken.broken_cache.clear()
            db2 = ZODB.DB(s)
            tm2 = transaction.TransactionManager()
            c2 = db2.open(tm2)

            def look(conn, where):
                try:
                    r = conn.root()
                    t2, p2 = r['thing'], r['part']
                    st = dict(t2.__Broken_state__) if hasattr(t2, '__Broken_state__') and t2.__Broken_state__ else None
                    if st is None:
                        t2._p_activate()
                        st = dict(t2.__Broken_state__ or {})
                except Exception as ex:
                    fail('graph with a class that cannot be found does not load (%s)' % where, md, type(ex).__name__, str(ex)[:120])
                check(IBroken.providedBy(t2) and IBroken.providedBy(p2), 'object of a missing class is not a placeholder (%s)' % where, md)
                check(t2._p_oid == toid, 'placeholder has another id (%s)' % where)
                check(st == {'name': 'thing', 'n': 7}, 'placeholder of a persistent object lost its state (%s)' % where, md, st)
                check(p2.__Broken_state__ == {'label': 'plain part'}, 'placeholder of a plain value lost its state (%s)' % where, md)
                check(r['other'].v == 3 and r['other']._p_oid == ooid, 'rest of the graph damaged (%s)' % where)
                return r
            r = look(c2, 'first load')
            refs = referencesf(load_current(s, r._p_oid)[0])
            check(sorted(refs) == sorted([toid, ooid]), 'references extracted from a record with missing classes differ', md, refs)
            if rewrite:
                r['extra'] = 1
                tm2.commit()
                c3 = db2.open(transaction.TransactionManager())
                look(c3, 'after the containing object was written again')
                refs = referencesf(load_current(s, r._p_oid)[0])
                check(sorted(refs) == sorted([toid, ooid]), 'references differ after the containing object was written again', md, refs)
        finally:
            if finder in sys.meta_path:
                sys.meta_path.remove(finder)
            sys.modules.pop(APP, None)
            ZODB.broken.broken_cache.clear()
    reached()


HARNESSES = [
    Harness('referencesf', h_referencesf,
            decides='referencesf / get_refs return exactly the oids of the strong same-database references of a record, in '
                    'order, as bytes, for every oid byte pattern and every combination of reference formats',
            symbolic='up to 3 oids (8 free bytes each), a format selector per reference over the 8 formats (incl. legacy str oids)',
            bounds='<= 3 references per record; shapes flat / nested in plain containers / shared (memoised) reference',
            oracle='list of referenced oids by construction', pure_python=True,
            code=['serialize.referencesf', 'serialize.get_refs', 'zodbpickle pure-Python Unpickler.noload (dependency)'],
            quick=dict(timeout=170, shards=shards(shape=['flat'], nrefs=[1, 2]) + shards(shape=['nested', 'shared'], nrefs=[2])),
            thorough=dict(timeout=900, shards=shards(shape=['flat', 'nested', 'shared'], nrefs=[1, 2, 3]))),
    Harness('roundtrip', h_roundtrip,
            decides='a stored graph loads as an equal graph in another connection (ids, identity, classes), new objects are '
                    'stored iff reachable (weak references to new objects included) or added, records reference exactly their strong out-edges and embed no other state',
            symbolic='9 adjacency bits (root->3 nodes, 6 inter-node edges); node-kind assignment (3 kinds per node) and the explicit add flag are shards',
            bounds='3 new nodes + root; edge carriers: direct / inside plain list+dict / weak reference',
            oracle='reachability over the edge list', code=['ObjectWriter.persistent_id/serialize', 'Connection._store_objects',
                                                             'ObjectReader.load_persistent/getGhost', 'referencesf'],
            quick=dict(timeout=150, shards=shards(explicit_add=[False, True], storage=['file'], kinds=[0, 13, 21]) + shards(explicit_add=[False], storage=['file'], kinds=[5], reset=[True])),
            thorough=dict(timeout=900, shards=shards(explicit_add=[False, True], storage=['file', 'mapping'], kinds=list(range(27))))),
    Harness('missing_class', h_missing_class,
            decides='a graph holding a persistent object and a plain value whose classes cannot be found any more (module gone / module '
                    'fails to import / class no longer in the module) loads with placeholders that keep the stored state and id, the rest '
                    'intact; references are still extracted; writing the containing object again loses nothing',
            symbolic='kind of breakage (3), whether the containing object is written again', bounds='1 persistent + 1 plain object of missing classes',
            oracle='stored state by construction', code=['broken.find_global', 'broken.Broken/PersistentBroken', 'ObjectReader._get_class/load_persistent', 'referencesf'],
            quick=dict(timeout=60, shards=shards(storage=['file'])), thorough=dict(timeout=120, shards=shards(storage=['file', 'mapping']))),
    Harness('export_import', h_export_import,
            decides='exportFile of the sub-graph below a node + importFile into another connection gives an equal graph (values, edges, '
                    'sharing, cycles) of new objects that commits and loads - also on a storage that declares blob support and inside a '
                    'transaction with a savepoint',
            symbolic='6 adjacency bits among 3 nodes, savepoint flag', bounds='3 nodes; storages file / demo (declares blob support)',
            oracle='edge list by construction', code=['ExportImport.exportFile/importFile/_importDuringCommit', 'referencesf'],
            quick=dict(timeout=100, shards=shards(storage=['file', 'demo'])), thorough=dict(timeout=300, shards=shards(storage=['file', 'mapping', 'demo']))),
    Harness('multidb_refs', h_multidb_refs,
            decides='every cross-database reference (all three reference formats: with class, class-less, inside plain containers) '
                    'loads as the object with that id in the named database - same class and state, one object per id per connection - '
                    'whatever the referring connection already holds under the same id',
            symbolic='8 cross-database adjacency bits (2+2 nodes), cache pre-load selector (3); node kinds are shards',
            bounds='2 databases with colliding oids, 2 nodes each', oracle='edge list by construction',
            code=['ObjectWriter.persistent_id (multi-database branches)', 'ObjectReader.load_multi_persistent/load_multi_oid', 'Connection.get_connection'],
            quick=dict(timeout=150, shards=shards(storage=['mapping'], kinds=[0, 40, 80, 46])),
            thorough=dict(timeout=900, shards=shards(storage=['mapping', 'file'], kinds=[0, 40, 80, 46, 5, 34, 65, 71]))),
]

MANIFEST = dict(
    text='Reference extraction: bounded symbolic execution of referencesf/get_refs over records whose reference oids are '
         'free 8-byte values and whose reference formats are solver-chosen (8 formats, up to 3 references, 3 shapes) - so '
         'all-ASCII, high-bit and mixed oid patterns are covered by path conditions, not samples.  Round trip: solver-'
         'enumerated graph shapes (adjacency bits, node kinds) stored and re-loaded through the real connections.',
    note='pure-Python zodbpickle stands in for the C unpickler symbolically (replayed with C); <= 3 references / 3 new '
         'nodes; missing-class placeholders: 3 kinds of breakage on one persistent + one plain object (missing_class); export/import: 3 nodes (export_import); values concrete.',
    design_ref='DESIGN.md section 4, C14',
)
