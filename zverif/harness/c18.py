"""C18 - repozo recover reproduces the backed-up data file byte for byte.

H-PROG/H-ARG: a program of up to 4 steps over {commit, large commit, pack, backup} with the
backup options (full, quick, gzip, kill-old) as solver-chosen booleans, an optional voted-
but-unfinished transaction in the data file while the backup runs, the recovery date as a
selector over the backups taken, and a single-file damage (missing / truncated at a solver-
chosen length / byte at a solver-chosen offset altered) for verify.  repozo's real functions
run on the in-memory file layer with READCHUNK = 7 so that chunk arithmetic is exercised.
"""
import gzip as _gzip
import sys

import ZODB.FileStorage  # noqa: F401
import ZODB.scripts.repozo as RZ

from zverif import battery as B
from zverif import graph as GR
from zverif import templates as T
from zverif.api import assume, check, fail, reached, untraced, choose, realize, note, pick
from zverif.model import fsparse
from zverif.spec import Harness, shards
from zverif.symenv import codec

codec.install()
F = sys.modules['ZODB.FileStorage.FileStorage']
SRC = '/db/Data.fs'
REPO = '/repo_dir'

ASSUMPTIONS = [
    'repozo runs on the in-memory file layer; gzip.open is routed to gzip.GzipFile over a file of that layer (gzip and md5 '
    'themselves are trusted); READCHUNK is set to 7',
    'program: backups run through repozo.main with a clock that advances one second per reading, 4 seconds between backups; the other harnesses name files through the test_now hook (one distinct second per backup); collisions within a second are outside',
    'programs of <= 4 steps; source transactions are small (one or two records) or "large" (a 300-byte record)',
    'backup_fault: I/O errors are injected at any file operation of a backup run up to and including the rename that publishes '
    'the copy; an interruption between that rename and the .dat entry is not covered by the property (observed: a later -Q '
    'incremental then appends a delta that overlaps the orphan file; recorded in DESIGN.md as outside the claim)',
    'a backup "while a transaction is in progress" = the data file contains a voted, unfinished transaction at backup time',
]


class _Gzip:
    def __init__(self, fs):
        self.fs = fs

    def open(self, fn, mode='rb', *a, **k):
        raw = self.fs.open(fn, mode if 'b' in mode else mode + 'b')
        g = _gzip.GzipFile(filename='', mode=mode, fileobj=raw, mtime=0)
        real_close = g.close

        def close():
            real_close()
            raw.close()
        g.close = close
        return g

    def __getattr__(self, n):
        return getattr(_gzip, n)


class Opt:
    mode = None
    file = SRC
    repository = REPO
    full = False
    quick = False
    gzip = False
    killold = False
    date = None
    output = None
    withverify = False


def _setup():
    env = T.Env()
    env.fs.os.makedirs(REPO)
    RZ.gzip = _Gzip(env.fs)
    RZ.READCHUNK = 7
    RZ.VERBOSE = False
    return env


def _committed_prefix(data):
    """Bytes of the data file up to the end of its last complete, finished transaction."""
    pos = 4
    import struct
    n = len(data)
    while pos + 23 <= n:
        tid, tlen, status = struct.unpack('>8sQc', data[pos:pos + 17])
        if status == b'c' or pos + tlen + 8 > n:
            break
        pos += tlen + 8
    return data[:pos]


def _stamp(k):
    return (2021, 3, 4, 5, 6, 10 + k)


class _Tick:
    """Clock for repozo that advances by one second at every reading (a backup reads it more than once)."""

    def __init__(self):
        import time
        self._real = time
        self.base, self.n = 0, 0

    def gmtime(self, *a):
        t = (2021, 3, 4, 5, 6, self.base + self.n, 0, 0, 0)
        self.n += 1
        return t

    def __getattr__(self, name):
        return getattr(self._real, name)


def _backup(env, k, full, quick, gz, killold, tick=None):
    o = Opt()
    o.mode = RZ.BACKUP
    o.full, o.quick, o.gzip, o.killold = full, quick, gz, killold
    if tick is None:
        o.test_now = _stamp(k)
        RZ.do_backup(o)
        return
    real = RZ.time
    tick.base, tick.n = 10 + 4 * k, 0
    RZ.time = tick
    try:
        # through the command line, as a user runs it
        argv = ['-B', '-r', REPO, '-f', SRC] + (['-F'] if full else []) + (['-Q'] if quick else []) + (['-z'] if gz else []) + (['-k'] if killold else [])
        try:
            RZ.main(argv)
        except SystemExit as ex:
            if ex.code not in (0, None):
                fail('repozo backup ended with a non-zero exit status', argv, ex.code)
    finally:
        RZ.time = real


def _recover(env, date=None, withverify=False):
    o = Opt()
    o.mode = RZ.RECOVER
    o.file = None
    o.date = date
    o.output = '/db/Restored.fs'
    o.withverify = withverify
    RZ.do_recover(o)
    return bytes(env.fs.content('/db/Restored.fs'))


def h_program(s0: int, s1: int, s2: int, s3: int, full: bool, quick: bool, gz: bool, killold: bool,
              inflight: bool, rdate: int, nsteps: int, wv: bool = False) -> None:
    steps = []
    for i, sv in enumerate((s0, s1, s2, s3)):
        if i < nsteps:
            steps.append(choose(sv, 4))
        else:
            assume(sv == 0)
    with untraced():
        env = _setup()
        st = env.filestorage()
        h = T.Hist(st)
        h.commit([(T.oid(1), b'first'), (T.oid(2), b'second')])
        snaps = []          # (stamp string, committed prefix at backup time, index expected)
        nb = 0
        tick = _Tick()

        def backup(is_full, q, g, kill):
            nonlocal nb
            t = None
            if inflight:
                t = T.meta(b'inflight')
                st.tpc_begin(t)
                st.store(T.oid(1), h.serial[T.oid(1)], b'in-flight-not-committed', '', t)
                st.tpc_vote(t)
            else:
                st._file.flush()
            try:
                src = bytes(env.fs.content(SRC))
                had = set(env.fs.os.listdir(REPO))
                _backup(env, nb, is_full, q, g, kill, tick=tick)
            finally:
                if t is not None:
                    st.tpc_abort(t)
            # the date of a backup is the one in the name of the file it wrote (the clock moves while it runs)
            made = sorted(nm for nm in set(env.fs.os.listdir(REPO)) - had if not nm.endswith(('.dat', '.index')))
            stamp = made[-1][:19] if made else '2021-03-04-05-06-%02d' % (10 + 4 * nb + 1)
            snaps.append((stamp, _committed_prefix(src), kill))
            nb += 1
        backup(True, False, gz, False)                 # every repository starts with a full backup
        n = 0
        for op in steps:
            n += 1
            if op == 0:
                h.commit([(T.oid(1), b'small-%d' % n)])
            elif op == 1:
                h.commit([(T.oid(3), b'L' * 300), (T.oid(1), b'with-large-%d' % n)])
            elif op == 2:
                st.pack(env.clock.time(), lambda p: [], gc=False)
            else:
                backup(full, quick, gz, killold)
        backup(False, quick, gz, False)                # and ends with an incremental attempt
    # ---- recover as of the newest state and as of a chosen earlier backup ----
    r = choose(rdate, len(snaps))
    with untraced():
        note('prog', ''.join(str(x) for x in steps) + ('F' if full else 'i') + ('q' if quick else '') + ('z' if gz else '')
             + ('k' if killold else '') + ('!' if inflight else ''))
        newest = _recover(env)
        check(newest == snaps[-1][1], 'recovered file differs from the committed data file at the last backup',
              len(newest), len(snaps[-1][1]))
        # every backup stores the index that belongs to it: recovery delivers one, and it is usable - opening with it
        # equals opening without it
        check(env.fs.exists('/db/Restored.fs.index'), 'recovery delivered no index file', sorted(env.fs.os.listdir(REPO)))
        if env.fs.exists('/db/Restored.fs.index'):
            a = F.FileStorage('/db/Restored.fs', read_only=True)
            ma = GR.model_from_storage(a)
            cur_a = dict((o, a.load(o)) for o in ma.oids() if _exists(a, o))
            a.close()
            env.fs.os.remove('/db/Restored.fs.index')
            b = F.FileStorage('/db/Restored.fs', read_only=True)
            cur_b = dict((o, b.load(o)) for o in ma.oids() if _exists(b, o))
            b.close()
            check(cur_a == cur_b, 'restored index gives a different state than a scan of the recovered file')
        # as of the date of backup r: the last backup not later than that date that the repository still holds
        names = env.fs.os.listdir(REPO)
        date = snaps[r][0]
        held = [i for i, sn in enumerate(snaps) if sn[0] <= date and any(nm.startswith(sn[0]) and not nm.endswith(('.dat', '.index')) for nm in names)]
        # a backup that found "no changes" wrote no file: its state equals that of the previous one
        try:
            got = _recover(env, date=date, withverify=wv)      # (with or without --with-verify: the same file)
            ok = True
        except RZ.NoFiles:
            ok = False
        if ok:
            cands = [snaps[i][1] for i in range(len(snaps)) if snaps[i][0] <= date]
            check(got in cands, 'recover as of a date yields a file that is not the committed data file at any backup up to that date', date)
            if held:
                check(got == snaps[max(i for i in range(len(snaps)) if snaps[i][0] <= date)][1] or got == snaps[held[-1]][1],
                      'recover as of a date is not the state of the last backup not later than the date', date)
        else:
            check(not held or killold, 'recover as of a date found no files although a backup from before exists', date, names)
        # full verification of the intact repository succeeds
        for q in (False, True):
            o = Opt()
            o.mode = RZ.VERIFY
            o.file = None
            o.quick = q
            try:
                RZ.do_verify(o)
            except RZ.VerificationFail as ex:
                fail('verify fails on an intact repository', str(ex))
        st.close()
    reached()


def _exists(s, o):
    try:
        s.load(o)
        return True
    except KeyError:
        return False


def h_verify_damage(kind: int, fsel: int, pos: int, gz: bool, quick: bool, chains: int = 1) -> None:
    """Any single-file damage of the repository is detected by verify (sizes only in quick mode)."""
    with untraced():
        env = _setup()
        st = env.filestorage()
        h = T.Hist(st)
        h.commit([(T.oid(1), b'first'), (T.oid(2), b'second')])
        st._file.flush()
        states = []

        def snap():
            st._file.flush()
            states.append(_committed_prefix(bytes(env.fs.content(SRC))))
        snap()
        _backup(env, 0, True, False, gz, False)
        h.commit([(T.oid(1), b'more-data-1')])
        snap()
        _backup(env, 1, False, False, gz, False)
        h.commit([(T.oid(3), b'even-more')])
        snap()
        _backup(env, 2, False, False, gz, False)
        if chains == 2:
            # a second chain in the same repository: another full backup and an incremental (older chain kept)
            h.commit([(T.oid(1), b'second-chain-1')])
            snap()
            _backup(env, 3, True, False, gz, False)
            h.commit([(T.oid(3), b'second-chain-2')])
            snap()
            _backup(env, 4, False, False, gz, False)
        st.close()
        files = sorted(nm for nm in env.fs.os.listdir(REPO) if not nm.endswith(('.dat', '.index')))
        if chains == 2:
            # (verify judges the chain that recover would use: the newest one; the older chain is merely kept)
            files = [nm for nm in files if nm >= '%04d-%02d-%02d-%02d-%02d-%02d' % _stamp(3)]
    k = choose(kind, 3)
    f = REPO + '/' + files[choose(fsel, len(files))]
    with untraced():
        data = bytes(env.fs.content(f))
    changed_size = True
    if k == 0:
        with untraced():
            env.fs.os.remove(f)
    elif k == 1:
        n = pick(pos, 0, len(data))
        with untraced():
            env.fs.put(f, data[:n])
    else:
        n = pick(pos, 0, len(data))
        with untraced():
            env.fs.put(f, data[:n] + bytes([data[n] ^ 0x5a]) + data[n + 1:])
            changed_size = False
    with untraced():
        o = Opt()
        o.mode = RZ.VERIFY
        o.file = None
        o.quick = quick
        detected = False
        try:
            RZ.do_verify(o)
        except (RZ.RepozoError, OSError, EOFError):
            detected = True          # repozo's main() turns RepozoError and OSError alike into a failing exit
        except Exception as ex:
            # a damaged gzip stream may be reported by the gzip/zlib library itself: also a failed verification
            detected = gz
            if not gz:
                raise
        if gz and k == 2:
            # altered byte inside a gzip file: only a difference in the (uncompressed) content that was
            # recorded must be detected - header fields such as the mtime do not belong to it
            import io
            try:
                same = _gzip.GzipFile(fileobj=io.BytesIO(bytes(env.fs.content(f)))).read() == \
                    _gzip.GzipFile(fileobj=io.BytesIO(data)).read()
            except Exception:
                same = False
            assume(not same)
        # what the user sees is the exit status of the script: a failed verification must not end with status 0
        try:
            RZ.main(['-V', '-r', REPO] + (['-Q'] if quick else []))
            status_ok = True
        except SystemExit as ex:
            status_ok = ex.code in (0, None)
        except Exception:
            status_ok = False          # died with a traceback: non-zero as well
        check(not (detected and status_ok), 'repozo --verify found a problem but the command ends with exit status 0', f, k)
        note('case', '%d%s%s' % (k, 'z' if gz else '', 'q' if quick else ''))
        if not quick:
            check(detected, 'full verification passed although a backup file is missing / truncated / altered', f, k)
        elif changed_size and not gz:
            check(detected, 'quick verification passed although a backup file is missing or has another size', f, k)
        # a missing file: recover --with-verify either refuses, or what it delivers is the data file at one of the backups
        # (a missing LAST incremental simply means an earlier state) - never a file with a hole
        if k == 0:
            try:
                got = _recover(env, withverify=True)
            except Exception:
                got = None
            check(got is None or got in states, 'recover --with-verify delivered a file that is no backed-up state although a backup file is missing', f)
        # recover --with-verify must refuse the same repository when full verify does
        if not quick and detected and k != 0:
            try:
                _recover(env, withverify=True)
                fail('recover --with-verify accepted a damaged repository')
            except (RZ.VerificationFail, OSError, EOFError, Exception):
                pass
    reached()


def h_backup_fault(at: int, what: int, full: bool, quick: bool, gz: bool, retry_quick: bool) -> None:
    """One backup run is disturbed at a solver-chosen file operation: an I/O error (read of the data file,
    write / rename / fsync in the repository) or a commit to the live data file at that point.  Whatever the
    run did, the repository afterwards recovers to the committed data file at one of the backups taken so far
    (never to a partial copy), and after the next undisturbed backup to the data file at that backup."""
    w = choose(what, 2)
    with untraced():
        env = _setup()
        st = env.filestorage()
        h = T.Hist(st)
        h.commit([(T.oid(1), b'first'), (T.oid(2), b'second')])
        st._file.flush()
        _backup(env, 0, True, False, gz, False)
        states = [_committed_prefix(bytes(env.fs.content(SRC)))]
        h.commit([(T.oid(1), b'more-data-1')])
        h.commit([(T.oid(3), b'L' * 40)])
        st._file.flush()
        states.append(_committed_prefix(bytes(env.fs.content(SRC))))
    count = [0]
    fired = [False]
    renamed = [False]
    import errno

    def hook(kind, path):
        if fired[0]:
            return
        i = count[0]
        count[0] += 1
        after_rename = renamed[0]
        if kind == 'rename':
            renamed[0] = True
        if i == at:
            fired[0] = True
            # errors are injected up to and including the rename that publishes the copy (repozo's documented
            # robustness device: temp file + fsync + rename); an interruption between that rename and the
            # .dat entry is outside the property (DESIGN.md, C18)
            assume(not (w == 0 and after_rename))
            with untraced():
                if w == 0:
                    raise OSError(errno.EIO, 'injected I/O error at file operation %d (%s %s)' % (i, kind, path))
                env.fs.hook = None
                h.commit([(T.oid(1), b'committed-during-the-backup')])
                st._file.flush()
                states.append(_committed_prefix(bytes(env.fs.content(SRC))))
    assume(at >= 0)
    env.fs.hook = hook
    failed = None
    try:
        _backup(env, 1, full, quick, gz, False)
    except (OSError, AssertionError) as ex:
        failed = ex
    finally:
        env.fs.hook = None
    with untraced():
        note('case', '%s%s%s%s%s' % ('EC'[w], 'F' if full else 'i', 'q' if quick else '', 'z' if gz else '', '!' if failed is not None else ''))
        check(failed is None or (w == 0 and fired[0]), 'a backup failed although no error was injected', repr(failed))
        try:
            got = _recover(env)
        except Exception as ex:
            fail('recover fails after a disturbed backup run', type(ex).__name__, str(ex))
        check(got in states, 'after a disturbed backup run, recover yields a file that is not the committed data file at any backup',
              len(got), [len(x) for x in states])
        if failed is None:
            check(got in states[1:], 'an undisturbed or merely overtaken backup run did not record the data file at its time', len(got))
        # the next, undisturbed, incremental attempt
        h.commit([(T.oid(2), b'after-the-disturbed-run')])
        st._file.flush()
        final = _committed_prefix(bytes(env.fs.content(SRC)))
        try:
            _backup(env, 2, False, retry_quick, gz, False)
        except Exception as ex:
            fail('the backup after a disturbed run fails', type(ex).__name__, str(ex))
        try:
            got = _recover(env)
        except Exception as ex:
            fail('recover fails after the backup that followed a disturbed run', type(ex).__name__, str(ex))
        check(got == final, 'after a disturbed run and a further backup, recover does not yield the committed data file',
              len(got), len(final))
        st.close()
    reached()


def h_same_size(quick: bool, gz: bool, nextra: int) -> None:
    """Equal-length transactions: full backup, [incremental], pack (drops a superseded revision), one more commit -> the
    data file is exactly as long as at the last backup, with other content.  The next backup (-Q or not) must notice:
    recover then yields the current committed file."""
    ne = choose(nextra, 2)
    with untraced():
        env = _setup()
        st = env.filestorage()
        h = T.Hist(st)
        X, Y = T.oid(1), T.oid(2)
        for recs in ([(T.Z64, b'root-object')], [(X, b'x-version-1')], [(Y, b'y-version-1')]):
            h.commit(recs)
        st._file.flush()
        _backup(env, 0, True, False, gz, False)
        h.commit([(X, b'x-version-2')])
        st._file.flush()
        _backup(env, 1, False, quick, gz, False)
        size_at_backup = len(env.fs.content(SRC))
        st.pack(env.clock.time(), lambda p: [], gc=False)          # drops x-version-1
        h.commit([(X, b'x-version-3')])                            # same length as the dropped transaction
        for i in range(ne):
            h.commit([(Y, b'y-version-%d' % (i + 2))])
        st._file.flush()
        now = _committed_prefix(bytes(env.fs.content(SRC)))
        note('same_size', len(now) == size_at_backup)
        _backup(env, 2, False, quick, gz, False)
        got = _recover(env)
        check(got == now, 'after a pack and further commits that restore the old file size, backup + recover do not yield the '
                          'current committed data file', len(got), len(now), size_at_backup)
        st.close()
    reached()


HARNESSES = [
    Harness('program', h_program,
            decides='after any program of commits / large commits / packs / backups (any option combination, optionally with a '
                    'transaction in progress during backups): recover yields byte-identically the committed part of the data file at '
                    'the last backup (and at the chosen earlier date), with a usable index; verify passes on the intact repository',
            symbolic='op-codes of up to 4 steps (4 kinds), 4 option booleans, in-progress flag, recovery date selector',
            bounds='nsteps per shard (quick 2, thorough up to 4); repository = initial full backup + program + final incremental',
            oracle='snapshot of the committed prefix of the source at each backup',
            code=['repozo.main (backups)', 'repozo.do_backup/do_full_backup/do_incremental_backup/delete_old_backups/do_recover/do_verify', 'gen_filename/gen_filedate', 'find_files', 'scandat', 'concat',
                  'copyfile', 'dofile', 'checksum*', 'delete_old_backups', 'FileStorage (read_only) getSize'],
            quick=dict(timeout=330, shards=shards(nsteps=[2], inflight=[False, True]) + shards(nsteps=[3], inflight=[True])),
            thorough=dict(timeout=1500, shards=shards(nsteps=[2, 3, 4], inflight=[False, True]))),
    Harness('backup_fault', h_backup_fault,
            decides='a backup run disturbed at ANY one of its file operations (I/O error, or a commit to the live data file at that '
                    'point) never leaves a partial copy that recover would use: recover yields the committed data file at one of the '
                    'backups, and after the next undisturbed backup the data file at that backup',
            symbolic='index of the disturbed file operation (open/read/write/fsync/rename/remove), kind of disturbance, option booleans',
            bounds='repository = 1 full backup + the disturbed run + 1 further incremental attempt', oracle='committed prefix snapshots',
            code=['repozo.do_backup', 'do_full_backup', 'do_incremental_backup', 'copyfile', 'dofile', 'scandat', 'find_files', 'do_recover'],
            quick=dict(timeout=200, shards=shards(gz=[False], full=[False, True])),
            thorough=dict(timeout=900, shards=shards(gz=[False, True], full=[False, True], quick=[False, True]))),
    Harness('same_size', h_same_size,
            decides='a pack followed by commits that bring the data file back to exactly its size at the last backup (equal-length '
                    'transactions) is noticed by the next backup, quick or not: recover yields the current committed file',
            symbolic='quick / gzip booleans, number of further commits (0-1)', bounds='history of equal-length transactions', oracle='committed prefix',
            code=['repozo.do_backup (quick branch: size and checksum tests)', 'do_incremental_backup', 'do_full_backup'],
            quick=dict(timeout=100, shards=shards()), thorough=dict(timeout=200, shards=shards())),
    Harness('verify_damage', h_verify_damage,
            decides='verify (and recover --with-verify) fail whenever a backup file is missing, cut at any length, or has any byte '
                    'altered; quick verify does so for sizes',
            symbolic='damage kind selector, file selector, solver-chosen position over the whole file', bounds='repository of 1 full + 2 incrementals',
            oracle='VerificationFail expected',
            code=['repozo.do_verify', 'get_checksum_and_size_of_file', 'get_checksum_and_size_of_gzipped_file', 'do_recover (withverify)'],
            quick=dict(timeout=170, shards=shards(gz=[False, True], quick=[False], chains=[1]) + shards(gz=[False], quick=[True], chains=[1]) + shards(gz=[False], quick=[False], chains=[2])),
            thorough=dict(timeout=600, shards=shards(gz=[False, True], quick=[False, True], chains=[1, 2]))),
]

MANIFEST = dict(
    text='Bounded solver-driven exploration of repozo on the real code: op-codes, option booleans, the in-progress-'
         'transaction flag, the recovery date and the damage (kind, file, position) are solver variables; each path runs the '
         'real backup/recover/verify functions (READCHUNK 7) and compares recovered bytes with the committed prefix of the '
         'source at backup time.  The solver enumerates and certifies exhaustion of the bounded program space; there is no '
         'data generalisation (bytes flow through md5/gzip).',
    note='programs of <= 4 steps; md5 and gzip trusted; one backup per second (test_now hook); selector mode (stated); backup_fault: one disturbance per run, up to and including the publishing rename.',
    design_ref='DESIGN.md section 4, C18',
)
