"""C13 - blob data commits, aborts, undoes and packs together with its object record.

H-PROG / H-FAULT: solver-chosen programs over {create blob, rewrite, append, consume a file,
savepoint, rollback, commit, abort, commit failing in a solver-chosen 2PC phase, commit whose
f-th file-system operation in the blob directory fails (f solver-chosen), undo, pack} run
against the real DB/Connection/Blob/BlobStorageMixin code.  Blob files are real files
(ZODB.blob.BlobFile is an io.FileIO): this check therefore runs on a scratch directory of the
real file system, removed after every path.  After every step the set of *.blob files must
equal the set of committed blob revisions of the model (after abort / failed commit: no file
of that transaction anywhere in the blob directory), bytes read through blob.open('r') must
equal the model in the working connection and in a fresh one, and committed files must never
change.
"""
import os
import shutil
import sys
import tempfile

from zverif import pobj
from zverif.api import assume, check, fail, reached, untraced, choose, realize, note, pick
from zverif.progs import FailingDM
from zverif.spec import Harness, shards
from zverif.symenv import clock as _clock

ASSUMPTIONS = [
    'runs on a scratch directory of the real file system (blob files are io.FileIO objects); storages: FileStorage with a blob '
    'directory (kind file), BlobStorage over MappingStorage (kind mapping), BlobStorage over FileStorage (kind proxy); scripted clock',
    'blob contents are short concrete byte strings; the solver ranges over programs (step codes), the failing phase and '
    'the index of the failing file-system operation',
    'fault injection wraps os.rename/os.remove/os.link/os.makedirs/os.chmod as used by ZODB.blob and ZODB.FileStorage.FileStorage '
    'and ZODB.utils.cp (a failing copy writes one byte first); one fault per commit / undo',
    'pack is to "now" or to an earlier transaction boundary (pack_mid, directed harnesses); undo is applied to the newest transaction only',
]

SCRATCH_BASE = '/dev/shm' if os.path.isdir('/dev/shm') else tempfile.gettempdir()


_swept = [False]


def _sweep_stale():
    """Scratch directories of workers that were killed (budget exceeded) would stay behind: remove those older than an
    hour, once per process, best effort."""
    if _swept[0]:
        return
    _swept[0] = True
    import time
    try:
        for nm in os.listdir(SCRATCH_BASE):
            if nm.startswith('zverif-c13-'):
                p_ = os.path.join(SCRATCH_BASE, nm)
                try:
                    if time.time() - os.path.getmtime(p_) > 3600:
                        shutil.rmtree(p_, ignore_errors=True)
                except OSError:
                    pass
    except OSError:
        pass


class BlobWorld:
    def __init__(self, kind):
        import transaction
        import ZODB
        import ZODB.blob
        import ZODB.FileStorage
        import ZODB.MappingStorage
        _sweep_stale()
        self.dir = tempfile.mkdtemp(prefix='zverif-c13-', dir=SCRATCH_BASE)
        # blobs that do not belong to a connection yet create their files in the default temp directory
        self._old_tempdir = tempfile.tempdir
        tempfile.tempdir = os.path.join(self.dir, 'systmp')
        os.mkdir(tempfile.tempdir)
        self.clock = _clock.install(_clock.ScriptedClock())
        self.blob_dir = os.path.join(self.dir, 'blobs')
        if kind == 'file':
            self.s = ZODB.FileStorage.FileStorage(os.path.join(self.dir, 'Data.fs'), blob_dir=self.blob_dir)
        elif kind == 'proxy':
            # the blob wrapper over a storage with undo (its own undo / pack code: BlobStorage.undo, _packUndoing)
            self.s = ZODB.blob.BlobStorage(self.blob_dir, ZODB.FileStorage.FileStorage(os.path.join(self.dir, 'Data.fs')))
        else:
            self.s = ZODB.blob.BlobStorage(self.blob_dir, ZODB.MappingStorage.MappingStorage())
        self.kind = kind
        self.db = ZODB.DB(self.s)
        self.transaction = transaction
        self.tm = transaction.TransactionManager()
        self.c = self.db.open(self.tm)
        self.root = self.c.root()
        self.root['plain'] = pobj.PObj(v=0)
        self.tm.commit()
        self.committed = {}      # name -> bytes
        self.work = {}           # name -> bytes
        self.touched = set()     # blobs written in the current transaction
        self.revs = {}           # name -> [(tid, bytes)] committed revisions whose files must exist
        self.oid = {}            # name -> oid
        self.history = []        # [(tid, {name: (prev bytes|None, new bytes|None)})] undoable commits
        self.sps = []
        self.n = 0
        self.k = 0
        self.gone = {}           # name -> tid of the transaction that un-created the blob (undo of its creation)
        self.marks = []          # (tid, clock instant just after it) of every transaction boundary that wrote something
        self.optional = {}       # (name, tid) -> bytes: files the storage MAY keep although no blob revision has that id
        self.life = {}           # name -> [(tid, exists)]: creation, un-creation by undo, redo

    def destroy(self):
        try:
            self.tm.abort()
            self.db.close()
        except Exception:
            pass
        tempfile.tempdir = self._old_tempdir
        shutil.rmtree(self.dir, ignore_errors=True)

    # -- operations ---------------------------------------------------------
    def _data(self, tag):
        self.k += 1
        return ('%s%d-' % (tag, self.k)).encode() * (1 + self.k % 3)

    def _pick(self, i):
        names = sorted(self.work)
        return names[i % len(names)] if names else None

    def _with_other(self, other):
        if other:
            self.root['plain'].v += 1

    def new(self, other):
        from ZODB.blob import Blob
        self.n += 1
        name = 'b%d' % self.n
        d = self._data('N')
        b = Blob()
        with b.open('w') as f:
            f.write(d)
        self.root[name] = b
        self.work[name] = d
        self.touched.add(name)
        self._with_other(other)
        return 'new:' + name

    def rewrite(self, i, other):
        name = self._pick(i)
        if name is None:
            return None
        d = self._data('W')
        with self.root[name].open('w') as f:
            f.write(d)
        self.work[name] = d
        self.touched.add(name)
        self._with_other(other)
        return 'rewrite:' + name

    def append(self, i, other):
        name = self._pick(i)
        if name is None:
            return None
        d = self._data('A')
        with self.root[name].open('a') as f:
            f.write(d)
        self.work[name] = self.work[name] + d
        self.touched.add(name)
        self._with_other(other)
        return 'append:' + name

    def consume(self, i, other):
        name = self._pick(i)
        if name is None:
            return None
        d = self._data('C')
        fd, path = tempfile.mkstemp(prefix='consume-', dir=self.dir)
        os.write(fd, d)
        os.close(fd)
        self.root[name].consumeFile(path)
        check(not os.path.exists(path), 'consumeFile left the consumed file behind')
        self.work[name] = d
        self.touched.add(name)
        self._with_other(other)
        return 'consume:' + name

    def consume_fail(self, i, other):
        """consumeFile() of a file that does not exist fails: the blob keeps whatever it held in this transaction."""
        name = self._pick(i)
        if name is None:
            return None
        try:
            self.root[name].consumeFile(os.path.join(self.dir, 'no-such-file'))
            fail('consumeFile of a missing file succeeded')
        except OSError:
            pass
        return 'consume_fail:' + name

    def savepoint(self):
        sp = self.tm.savepoint()
        self.sps.append((sp, dict(self.work), set(self.touched)))
        return 'S'

    def rollback(self):
        if not self.sps:
            return None
        sp, snap, touched = self.sps[0]
        sp.rollback()
        del self.sps[1:]
        self.work = dict(snap)
        self.touched = set(touched)
        return 'R'

    def _mark(self):
        tid = self.s.lastTransaction()
        if not self.marks or self.marks[-1][0] != tid:
            self.marks.append((tid, self.clock.now + 0.25))

    def _commit_model(self):
        tid = self.s.lastTransaction()
        self._mark()
        change = {}
        for name in self.touched:
            if name in self.work:
                if name not in self.revs:
                    self.life[name] = [(tid, True)]
                self.revs.setdefault(name, []).append((tid, self.work[name], None))
                self.oid[name] = self.root[name]._p_oid
                change[name] = (self.committed.get(name), self.work[name])
        self.committed = dict(self.work)
        if change:
            self.history.append((tid, change))
        elif self.touched:
            pass
        self.touched = set()
        self.sps = []

    def commit(self):
        before = self.s.lastTransaction()
        self.tm.commit()
        if self.s.lastTransaction() != before:
            self._commit_model()
            if not self.history or self.history[-1][0] != self.s.lastTransaction():
                self.history.append((self.s.lastTransaction(), {}))
        else:
            self.touched = set()
            self.sps = []
        return 'C'

    def _revert(self):
        self.work = dict(self.committed)
        self.touched = set()
        self.sps = []

    def abort(self):
        self.tm.abort()
        self._revert()
        return 'X'

    def failing_commit(self, phase, first):
        self.tm.get().join(FailingDM(self.tm, phase, first))
        try:
            self.tm.commit()
            fail('commit with a failing participant succeeded')
        except RuntimeError:
            pass
        self.tm.abort()
        self._revert()
        return 'F:%s%s' % (phase, '<' if first else '>')

    def faulty_commit(self, f):
        """Commit during which the f-th file-system operation in the blob code fails."""
        inj = _Injector(f, self.s)
        inj.install()
        try:
            try:
                self.tm.commit()
                ok = True
            except Exception:
                ok = False            # whatever the error is called, the commit failed
        finally:
            inj.uninstall()
        if not inj.fired:
            # f beyond the last operation: an ordinary commit
            if ok:
                before = None
                self._commit_model()
                if not self.history or self.history[-1][0] != self.s.lastTransaction():
                    self.history.append((self.s.lastTransaction(), {}))
            return 'faulty(none)'
        check(not ok or True, '')
        if ok:
            # the failing operation was outside the commit's critical path (e.g. cleanup): commit stands
            self._commit_model()
            return 'faulty(%d,survived)' % inj.fired_at
        self.tm.abort()
        self._revert()
        return 'faulty(%d:%s)' % (inj.fired_at, inj.fired)

    def conflict_commit(self, i):
        """Another connection rewrites a blob and commits first; our commit of a change to the same blob then
        fails with a ConflictError: nothing of our transaction remains, the other one's bytes are the state."""
        from ZODB.POSException import ConflictError
        name = self._pick(i)
        if name is None or name not in self.committed:
            return None
        if name not in self.touched:
            self.rewrite(i, False)
        tm2 = self.transaction.TransactionManager()
        c2 = self.db.open(tm2)
        d2 = self._data('O')
        with c2.root()[name].open('w') as f:
            f.write(d2)
        tm2.commit()
        c2.close()
        tid2 = self.s.lastTransaction()
        self._mark()
        self.revs[name].append((tid2, d2, None))
        self.history.append((tid2, {name: (self.committed[name], d2)}))
        self.committed[name] = d2
        try:
            self.tm.commit()
            fail('commit of a blob that another connection changed meanwhile succeeded')
        except ConflictError:
            pass
        self.tm.abort()
        self._revert()
        return 'conflict:' + name

    def undo_older(self):
        """Undo the second-newest transaction.  If the newest one wrote one of the same blobs the undo must be refused
        (the later bytes would be lost) and change nothing; otherwise it applies like any undo."""
        if len(self.history) < 2 or self.touched or self.sps or self.kind == 'mapping':
            return None
        (tid, change), (t2, later) = self.history[-2], self.history[-1]
        if t2 != self.s.lastTransaction() or not change:
            return None
        import base64
        from ZODB.POSException import UndoError
        overlap = set(change) & set(later)
        try:
            self.db.undo(base64.encodebytes(tid).rstrip(), self.tm.get())
            self.tm.commit()
            ok = True
        except UndoError:
            ok = False
            self.tm.abort()
        check(ok == (not overlap), 'undo of a blob transaction whose blob was written again later was accepted (the later bytes are '
                                   'lost) / an independent undo was refused', sorted(overlap))
        if not ok:
            self._revert()
            return 'undo_older(refused)'
        return self._undo_model(tid, change, 'undo_older')

    def faulty_undo(self, f):
        """Undo of the newest transaction during which the f-th file-system operation of the blob code fails: either the
        undo stands completely or nothing of it remains."""
        if not self.history or self.touched or self.sps or self.kind == 'mapping':
            return None
        tid, change = self.history[-1]
        if tid != self.s.lastTransaction():
            return None
        import base64
        inj = _Injector(f)
        inj.install()
        try:
            try:
                self.db.undo(base64.encodebytes(tid).rstrip(), self.tm.get())
                self.tm.commit()
                ok = True
            except Exception:
                ok = False
        finally:
            inj.uninstall()
        if ok:
            # f beyond the last operation, or the failing operation was not essential: an ordinary undo.  Redo the
            # bookkeeping of undo_last for a transaction that is already committed.
            self.tm.abort()
            return self._undo_model(tid, change, 'faulty_undo(%s)' % (inj.fired or 'none'))
        self.tm.abort()
        self._revert()
        return 'faulty_undo(%d:%s)' % (inj.fired_at, inj.fired) if inj.fired else None

    def undo_last(self):
        if not self.history or self.touched or self.sps or self.kind == 'mapping':
            return None          # (MappingStorage has no undo)
        tid, change = self.history[-1]
        if tid != self.s.lastTransaction():
            return None
        import base64
        self.db.undo(base64.encodebytes(tid).rstrip(), self.tm.get())
        self.tm.commit()
        return self._undo_model(tid, change, 'undo')

    def _undo_model(self, tid, change, tag):
        utid = self.s.lastTransaction()
        self._mark()
        inverse = {}
        for name, (prev, new) in change.items():
            if prev is None:
                self.committed.pop(name, None)         # creation undone: the blob is gone from the root
                self.gone[name] = utid
                self.life[name].append((utid, False))
                if self.kind == 'proxy':
                    # by design the blob wrapper keeps a copy of the created blob's file under the undo transaction's id
                    # ("in case a user wishes to undo this undo"); the next pack removes it
                    self.optional[(name, utid)] = new
            else:
                self.committed[name] = prev
                # undo brings back the previous bytes as a new revision; its record points back to the revision
                # that held those bytes (the newest earlier revision with them), which a later pack must keep
                src = [r[0] for r in self.revs.get(name, []) if r[0] < tid and r[1] == prev]
                if self.gone.pop(name, None) is not None:
                    self.life[name].append((utid, True))
                self.revs.setdefault(name, []).append((utid, prev, src[-1] if src else None))
            inverse[name] = (new, prev)
        self.history.append((utid, inverse))           # an undo is an ordinary transaction: it can be undone
        self.work = dict(self.committed)
        return tag

    def _after_pack(self, stop_tid):
        """Model of the blob files after a pack to the boundary stop_tid.  Revisions written after the pack time, and
        the revision current at the pack time of a blob that exists then (blobs hang off the root; a blob does not
        exist while its creation is undone), must stay loadable with their files.  For every other (superseded
        or garbage) revision the property asks for consistency - "pack removes precisely the files of the revisions
        it removes": its file exists exactly if the storage still serves that revision (loadSerial).  Which
        superseded revisions a storage keeps is C07's subject."""
        from ZODB.POSException import POSKeyError
        for name in list(self.revs):
            rs = self.revs[name]
            old = [r for r in rs if r[0] <= stop_tid]
            new = [r for r in rs if r[0] > stop_tid]
            ev = [e for e in self.life.get(name, []) if e[0] <= stop_tid]
            must = (old[-1:] if ev and ev[-1][1] else []) + new
            needed = set(r[2] for r in new if r[2] is not None)       # revisions that later undo records point back to
            keep = []
            for r in rs:
                if any(r is m for m in must):
                    keep.append(r)
                    continue
                try:
                    self.s.loadSerial(self.oid[name], r[0])
                    keep.append(r)
                except (POSKeyError, KeyError):
                    # not served any more: the file must be gone - except that a storage may keep the data of a
                    # revision (and with it the file) that a later undo record points back to
                    if r[0] in needed and os.path.exists(self.s.fshelper.getBlobFilename(self.oid[name], r[0])):
                        keep.append(r)
            if keep:
                self.revs[name] = keep
            else:
                del self.revs[name]
        for key in list(self.optional):
            if key[1] <= stop_tid:
                del self.optional[key]            # helper copies are not revisions: a pack over them removes them
        self.history = [(t, ch) for (t, ch) in self.history if t > stop_tid]

    def pack(self):
        if self.touched or self.sps:
            return None
        from ZODB.serialize import referencesf
        self.s.pack(self.clock.time(), referencesf)
        self._after_pack(self.s.lastTransaction())
        return 'pack'

    def undo2(self):
        """Undo the two newest transactions, newest first, in ONE undo transaction (a blob written by both gets two
        records and two file stores under one id: the last one counts)."""
        if len(self.history) < 2 or self.touched or self.sps or self.kind == 'mapping':
            return None
        (t1, c1), (t2, c2) = self.history[-2], self.history[-1]
        if t2 != self.s.lastTransaction():
            return None
        if any(v is None for c in (c1, c2) for pair in c.values() for v in pair):
            # a creation and its undoing in ONE undo transaction: outside this step (the copy made for the re-creation
            # stays as a file without a revision until the next pack - noted in DESIGN.md section 7)
            return None
        import base64
        self.db.undoMultiple([base64.encodebytes(t2).rstrip(), base64.encodebytes(t1).rstrip()], self.tm.get())
        self.tm.commit()
        combined = {}
        for name, (prev, new) in c1.items():
            combined[name] = (prev, new)
        for name, (prev, new) in c2.items():
            combined[name] = (combined[name][0] if name in combined else prev, new)
        return self._undo_model(t1, combined, 'undo2')

    def undo2_fail(self):
        """Undo the two newest transactions in ONE transaction whose commit then fails at another participant's
        vote: nothing changes, and no blob file of the failed undo transaction remains."""
        if len(self.history) < 2 or self.touched or self.sps or self.kind == 'mapping':
            return None
        (t1, _), (t2, _) = self.history[-2], self.history[-1]
        if t2 != self.s.lastTransaction():
            return None
        import base64
        self.db.undoMultiple([base64.encodebytes(t2).rstrip(), base64.encodebytes(t1).rstrip()], self.tm.get())
        self.tm.get().join(FailingDM(self.tm, 'vote', False))
        try:
            self.tm.commit()
            fail('commit with a failing participant succeeded')
        except RuntimeError:
            pass
        self.tm.abort()
        return 'undo2_fail'

    def pack_mid(self):
        """Pack to a time two transactions back: revisions superseded at that time lose their files, everything
        current then or written later keeps them."""
        if self.touched or self.sps or len(self.marks) < 3:
            return None
        from ZODB.serialize import referencesf
        stop_tid, when = self.marks[-3]
        self.s.pack(when, referencesf)
        self._after_pack(stop_tid)
        return 'pack_mid'

    # -- checks -------------------------------------------------------------
    def check_view(self, where):
        names = sorted(k for k in self.root.keys() if k != 'plain')
        check(names == sorted(self.work), 'blobs visible in the connection differ from the model (%s)' % where, names, sorted(self.work))
        for name in names:
            with self.root[name].open('r') as f:
                got = f.read()
            check(got == self.work[name], 'blob bytes in the working connection differ from the model (%s)' % where, name, got, self.work[name])

    def blob_files(self):
        out = {}
        leftovers = []
        for dp, dn, fn in os.walk(self.blob_dir):
            for f in fn:
                p = os.path.join(dp, f)
                if f.endswith('.blob'):
                    with open(p, 'rb') as fh:
                        out[p] = fh.read()
                elif f not in ('.layout', '.removed'):
                    leftovers.append(p)
        return out, leftovers

    def check_disk(self, where):
        # An uncommitted blob file is the state of its Blob object and goes away with it (weak-reference clean-up).  A new
        # blob that was disowned by an abort keeps its state while the application still holds it: only files that
        # survive the release of everything the aborted transaction held are leftovers.
        import gc
        try:
            self.c.cacheMinimize()
        except Exception:
            pass
        gc.collect()
        files, leftovers = self.blob_files()
        want = {}
        for name, rs in self.revs.items():
            for tid, data, _src in rs:
                want[self.s.fshelper.getBlobFilename(self.oid[name], tid)] = data
        for (name, tid), data in self.optional.items():
            p = self.s.fshelper.getBlobFilename(self.oid[name], tid)
            if p in files and p not in want:
                want[p] = data
        check(sorted(files) == sorted(want), 'set of committed blob files differs from the committed blob revisions (%s)' % where,
              sorted(os.path.relpath(p, self.blob_dir) for p in set(files) ^ set(want)))
        for p in want:
            check(files[p] == want[p], 'bytes of a committed blob file differ from what was committed (%s)' % where, os.path.relpath(p, self.blob_dir))
        check(not leftovers, 'temporary files left in the blob directory after a transaction boundary (%s)' % where,
              [os.path.relpath(p, self.blob_dir) for p in leftovers])

    def check_other(self, where):
        tm2 = self.transaction.TransactionManager()
        c2 = self.db.open(tm2)
        try:
            r2 = c2.root()
            names = sorted(k for k in r2.keys() if k != 'plain')
            check(names == sorted(self.committed), 'another connection sees uncommitted blobs / misses committed ones (%s)' % where,
                  names, sorted(self.committed))
            for name in names:
                with r2[name].open('r') as f:
                    got = f.read()
                check(got == self.committed[name], 'another connection reads blob bytes that were not committed (%s)' % where, name, got)
        finally:
            tm2.abort()
            c2.close()


class _Injector:
    """Make the f-th file-system operation of the blob code fail (OSError)."""
    NAMES = ['rename', 'remove', 'link', 'makedirs', 'chmod']

    def __init__(self, f, storage=None):
        self.f = f
        self.storage = storage
        self.n = 0
        self.fired = None
        self.fired_at = None
        self.saved = []

    def _wrap(self, name, fn):
        def w(*a, **k):
            i = self.n
            self.n += 1
            if self.fired is None and i == self.f:
                self.fired = name
                self.fired_at = i
                raise OSError(28, 'injected failure of %s' % name)
            return fn(*a, **k)
        return w

    def install(self):
        import ZODB.blob as BL
        F = sys.modules['ZODB.FileStorage.FileStorage']

        class OS:
            def __init__(s, real):
                s.__dict__['_real'] = real

            def __getattr__(s, n):
                v = getattr(s._real, n)
                if n in self.NAMES:
                    return self._wrap(n, v)
                return v
        for mod in (BL, F):
            self.saved.append((mod, 'os', mod.os))
            mod.os = OS(mod.os)
        # file copies (undo copies blob files): the failing copy writes one byte and then fails, as a full disk does
        import ZODB.utils as U
        real_cp = U.cp

        def partial_cp(f1, f2, length=None, bufsize=64 * 1024):
            i = self.n
            self.n += 1
            if self.fired is None and i == self.f:
                self.fired = 'cp'
                self.fired_at = i
                f2.write(f1.read(1))
                raise OSError(28, 'injected failure of a file copy after one byte')
            return real_cp(f1, f2, length, bufsize)
        self.saved.append((U, 'cp', U.cp))
        U.cp = partial_cp
        # the storage refusing a record for a reason other than a conflict (quota, read-only medium, ...)
        if self.storage is not None:
            target = getattr(self.storage, '_BlobStorage__storage', self.storage)
            real_store = target.store

            def store(*a, **k):
                i = self.n
                self.n += 1
                if self.fired is None and i == self.f:
                    self.fired = 'store'
                    self.fired_at = i
                    from ZODB.POSException import StorageError
                    raise StorageError('injected refusal of a store')
                return real_store(*a, **k)
            target.store = store
            self.unstore = target
        if getattr(F, 'cp', None) is real_cp:
            self.saved.append((F, 'cp', F.cp))
            F.cp = partial_cp

    def uninstall(self):
        for mod, name, real in self.saved:
            setattr(mod, name, real)
        if getattr(self, 'unstore', None) is not None:
            del self.unstore.store              # back to the class's method
            self.unstore = None


CODES = ['new', 'rewrite0', 'append0', 'consume0', 'rewrite1', 'savepoint', 'rollback', 'commit', 'abort',
         'fail_commit>', 'fail_vote>', 'fail_vote<', 'undo', 'pack', 'pack_mid', 'conflict0', 'consumefail0']


def _step(w, code, other):
    if code == 'new':
        return w.new(other)
    if code.startswith('rewrite'):
        return w.rewrite(int(code[-1]), other)
    if code.startswith('append'):
        return w.append(int(code[-1]), other)
    if code.startswith('consumefail'):
        return w.consume_fail(int(code[-1]), other)
    if code.startswith('consume'):
        return w.consume(int(code[-1]), other)
    if code == 'savepoint':
        return w.savepoint()
    if code == 'rollback':
        return w.rollback()
    if code == 'commit':
        return w.commit()
    if code == 'abort':
        return w.abort()
    if code.startswith('fail_'):
        return w.failing_commit(code[5:-1], code.endswith('<'))
    if code == 'undo':
        return w.undo_last()
    if code == 'pack':
        return w.pack()
    if code == 'pack_mid':
        return w.pack_mid()
    if code == 'undo2':
        return w.undo2()
    if code == 'undo2_fail':
        return w.undo2_fail()
    if code.startswith('conflict'):
        return w.conflict_commit(int(code[-1]))
    if code == 'undo_older':
        return w.undo_older()
    raise ValueError(code)


def _run(codes, kind, other, fault=None):
    w = BlobWorld(kind)
    try:
        w.new(False)
        w.commit()
        trace = []
        for code in codes:
            t = _step(w, code, other)
            if t is None:
                assume(False)
            trace.append(t)
            where = ' '.join(trace)
            w.check_view(where)
            if code in ('commit', 'abort', 'undo', 'undo2', 'undo_older', 'pack', 'pack_mid', 'undo2_fail') or code.startswith(('fail_', 'conflict')):
                w.check_disk(where)
                w.check_other(where)
            elif code in ('savepoint', 'rollback'):
                w.check_other(where)
        if fault is not None:
            t = w.faulty_commit(fault)
            trace.append(t)
            note('fault', t.split('(')[1].split(':')[-1].rstrip(')'))
            w.check_view(' '.join(trace))
            w.check_disk(' '.join(trace))
            w.check_other(' '.join(trace))
        # the next transaction commits normally
        w.rewrite(0, True) or w.new(True)
        w.commit()
        w.check_view('follow-up commit after ' + ' '.join(trace))
        w.check_disk('follow-up commit after ' + ' '.join(trace))
        w.check_other('follow-up commit after ' + ' '.join(trace))
    finally:
        w.destroy()


def h_program(c0: int, c1: int, c2: int, c3: int, n: int, kind: str, other: bool, first: str) -> None:
    cs = [c0, c1, c2, c3]
    codes = []
    for i in range(4):
        if i >= n:
            assume(cs[i] == 0)
            continue
        if i == 0 and first != 'any':
            assume(cs[0] == 0)
            codes.append(first)
        else:
            codes.append(CODES[pick(cs[i], 0, len(CODES))])
    with untraced():
        _run(codes, kind, other)
    reached()


def h_fault(c0: int, c1: int, f: int, kind: str, other: bool) -> None:
    """Two solver-chosen blob operations, then a commit whose f-th file-system operation fails."""
    codes = [CODES[pick(c, 0, 7)] for c in (c0, c1)]
    ff = pick(f, 0, 12)
    with untraced():
        _run(codes, kind, other, fault=ff)
    reached()


WRITES = ['nothing', 'rewrite0', 'append0', 'consume0', 'new', 'consumefail0']


def h_directed_sp(a: int, b: int, c: int, extra_sp: bool, end_commit: bool, kind: str) -> None:
    """[write], S, [write], [S], rollback to the first savepoint, [write], then commit or abort: blob bytes
    follow the savepoint state exactly."""
    ws = [WRITES[choose(x, len(WRITES))] for x in (a, b, c)]
    codes = [ws[0], 'savepoint', ws[1]] + (['savepoint'] if extra_sp else []) + ['rollback', ws[2], 'commit' if end_commit else 'abort']
    codes = [x for x in codes if x != 'nothing']
    with untraced():
        _run(codes, kind, False)
    reached()


def h_directed_undo_pack(u1: bool, w3: bool, u2: bool, with_new: int, packsel: int, other: bool, kind: str, m2: bool = False) -> None:
    """write, commit, write, commit, [undo], [write, commit], [undo], then pack to now / to an earlier time /
    not at all: the blob files on disk are exactly those of the revisions that remain."""
    pk = ['pack', 'pack_mid', 'nothing', 'undo2_fail', 'undo_older'][choose(packsel, 5)]
    wn = choose(with_new, 3)          # a second blob created in the first (1) or second (2) transaction, or not at all
    codes = (['new'] if wn == 1 else []) + ['rewrite0', 'commit'] + (['new'] if wn == 2 else []) + ['append0', 'commit'] + (['undo'] if u1 else []) + (['consume0', 'commit'] if w3 else []) \
        + (['undo'] if u2 else []) + (['undo2'] if m2 else []) + [pk]
    codes = [x for x in codes if x != 'nothing']
    with untraced():
        _run(codes, kind, other)
    reached()


def h_directed_unlink_pack(w2: bool, act: int, packsel: int, kind: str) -> None:
    """A blob is created, [rewritten,] unlinked from the root, then - in a later transaction - written again
    (and linked again, or left unreachable), followed by an unrelated commit; pack to a solver-chosen
    transaction boundary.  Revisions written after the pack time keep their files whatever the object's
    reachability at the pack time; revisions superseded at the pack time, and everything of an object that is
    garbage then and not written later, lose them."""
    a = choose(act, 3)                # 0: nothing further, 1: rewrite + link again, 2: rewrite while unreachable
    with untraced():
        w = BlobWorld(kind)
        try:
            from ZODB.serialize import referencesf
            rootlog = []              # (tid, blob names in the root) per commit

            def commit(tag):
                w._with_other(True)
                w.commit()
                rootlog.append((w.s.lastTransaction(), frozenset(w.work)))
                trace.append(tag)
            trace = []
            w.new(False)
            commit('new:b1')
            if w2:
                w.rewrite(0, False)
                commit('rewrite')
            b = w.root['b1']
            del w.root['b1']
            kept = w.work.pop('b1')
            commit('unlink')
            if a:
                d = w._data('Z')
                with b.open('w') as f:
                    f.write(d)
                if a == 1:
                    w.root['b1'] = b
                    w.work['b1'] = d
                    commit('rewrite+link')
                else:
                    commit('rewrite-unreachable')
                w.revs['b1'].append((w.s.lastTransaction(), d, None))
            w.root['plain'].v += 1
            commit('unrelated')
            k = choose(packsel, len(w.marks))
            stop_tid, when = w.marks[k]
            note('pack', '%d/%d act=%d' % (k, len(w.marks), a))
            w.s.pack(when, referencesf)
            live = set()
            at_stop = frozenset()
            for tid, names in rootlog:
                if tid <= stop_tid:
                    at_stop = names
                else:
                    live |= names
            live |= at_stop
            rs = w.revs['b1']
            old = [r for r in rs if r[0] <= stop_tid]
            newer = [r for r in rs if r[0] > stop_tid]
            # the revision current at the pack time is needed if some state from then on reaches the blob while that
            # revision is still the current one; if the blob is garbage at the pack time but written later, whether
            # the storage keeps that (unreachable) revision is left open here (record level: C07)
            needed = any('b1' in names and not [r for r in newer if r[0] <= tid]
                         for tid, names in [(stop_tid, at_stop)] + [x for x in rootlog if x[0] > stop_tid])
            keep_old = old[-1:] if needed else []
            if old and not needed and newer and os.path.exists(w.s.fshelper.getBlobFilename(w.oid['b1'], old[-1][0])):
                keep_old = old[-1:]
            w.revs['b1'] = keep_old + newer
            where = ' '.join(trace) + ' pack@%d' % k
            w.check_disk(where)
            w.check_view(where)
            w.check_other(where)
        finally:
            w.destroy()
    reached()


def h_foreign_abort(where: int, nblobs: int, kind: str) -> None:
    """tpc_abort called with a transaction other than the one being committed, at a solver-chosen point of a
    blob commit (after begin / after the stores / after the vote): rejected without effect - the commit in
    progress finishes and all its blob files are in place with the bytes written."""
    k = choose(where, 3)
    nb = 1 + choose(nblobs, 2)
    with untraced():
        from ZODB.Connection import TransactionMetaData
        from ZODB.utils import z64
        w = BlobWorld(kind)
        try:
            s = w.s
            t = TransactionMetaData(b'u', b'blob commit in progress')
            other = TransactionMetaData(b'u', b'blob commit in progress')      # looks the same, is another transaction
            s.tpc_begin(t)
            if k == 0:
                s.tpc_abort(other)
            oids, datas = [], []
            rec = w.s.load(w.root['plain']._p_oid)[0]      # any valid record serves as the blob object's record
            import pickle
            from ZODB.blob import Blob
            import io
            for i in range(nb):
                o = s.new_oid()
                fn = os.path.join(s.temporaryDirectory(), 'foreign-%d.tmp' % i)
                d = b'blob-bytes-%d' % i
                with open(fn, 'wb') as f:
                    f.write(d)
                s.storeBlob(o, z64, rec, fn, '', t)
                oids.append(o)
                datas.append(d)
            if k == 1:
                s.tpc_abort(other)
            s.tpc_vote(t)
            if k == 2:
                s.tpc_abort(other)
            check(s.tpc_transaction() is t if hasattr(s, 'tpc_transaction') else True,
                  'abort with a foreign transaction ended the transaction in progress')
            s.tpc_finish(t)
            tid = s.lastTransaction()
            for o, d in zip(oids, datas):
                try:
                    fn = s.loadBlob(o, tid)
                except Exception as ex:
                    fail('blob file of a committed transaction is missing after a foreign tpc_abort during its commit', k, type(ex).__name__)
                with open(fn, 'rb') as f:
                    check(f.read() == d, 'blob bytes differ after a foreign tpc_abort during the commit', k)
            files, leftovers = w.blob_files()
            check(not leftovers, 'temporary files left in the blob directory', leftovers)
        finally:
            w.destroy()
    reached()


def h_foreign_finish(where: int, how: int, nblobs: int, kind: str) -> None:
    """A tpc_finish that is refused - called with a transaction other than the one being committed (after the
    stores or after the vote), or with a callback that raises before the commit point - followed by the abort of
    the transaction in progress: no blob file of that transaction remains, nothing of it can be loaded, and the
    next blob commit works."""
    k = choose(where, 2)
    hw = choose(how, 2)
    nb = 1 + choose(nblobs, 2)
    assume(not (hw == 1 and k == 0))      # a finish of the real transaction needs the vote first
    with untraced():
        from ZODB.Connection import TransactionMetaData
        from ZODB.POSException import StorageTransactionError, POSKeyError
        from ZODB.utils import z64
        w = BlobWorld(kind)
        try:
            s = w.s
            before, _ = w.blob_files()
            last = s.lastTransaction()
            t = TransactionMetaData(b'u', b'blob commit in progress')
            other = TransactionMetaData(b'u', b'blob commit in progress')
            s.tpc_begin(t)
            rec = w.s.load(w.root['plain']._p_oid)[0]
            oids = []
            for i in range(nb):
                o = s.new_oid()
                fn = os.path.join(s.temporaryDirectory(), 'refused-%d.tmp' % i)
                with open(fn, 'wb') as f:
                    f.write(b'blob-bytes-%d' % i)
                s.storeBlob(o, z64, rec, fn, '', t)
                oids.append(o)
            if k == 1:
                s.tpc_vote(t)
            if hw == 0:
                try:
                    s.tpc_finish(other)
                    fail('tpc_finish with a foreign transaction was accepted')
                except StorageTransactionError:
                    pass
            else:
                class Boom(Exception):
                    pass

                def cb(tid):
                    raise Boom('callback failed before the commit point')
                try:
                    s.tpc_finish(t, cb)
                    fail('tpc_finish swallowed the exception of its callback')
                except Boom:
                    pass
            s.tpc_abort(t)
            check(s.lastTransaction() == last, 'a refused tpc_finish followed by the abort committed something')
            files, leftovers = w.blob_files()
            check(files == before, 'blob files of an aborted transaction remain in the blob directory after a refused tpc_finish',
                  k, hw, sorted(set(files) - set(before)))
            check(not leftovers, 'temporary files left in the blob directory', leftovers)
            for o in oids:
                try:
                    s.load(o, '')
                    fail('object of the aborted transaction can be loaded')
                except POSKeyError:
                    pass
            # the storage is usable: an ordinary blob commit through the connection
            w.new(False)
            w.commit()
            w.check_disk('after the follow-up commit')
        finally:
            w.destroy()
    reached()


def h_undo_fault(f: int, w2: bool, kind: str) -> None:
    """Blob written in two (or three) transactions, then an undo of the newest one during which the f-th
    file-system operation of the blob code (rename, remove, link, makedirs, chmod, file copy cut after one byte)
    fails: the undo either stands completely or leaves no file behind; a later undo works."""
    ff = pick(f, 0, 10)
    with untraced():
        w = BlobWorld(kind)
        try:
            w.new(False)
            w.commit()
            trace = []
            for code in ['rewrite0', 'commit'] + (['new', 'append0', 'commit'] if w2 else []):
                trace.append(_step(w, code, True))
            t = w.faulty_undo(ff)
            if t is None:
                assume(False)
            trace.append(t)
            note('fault', t)
            where = ' '.join(trace)
            w.check_view(where)
            w.check_disk(where)
            w.check_other(where)
            t = w.undo_last()
            check(t is not None, 'no undoable transaction after a (failed) undo')
            where += ' undo'
            w.check_view(where)
            w.check_disk(where)
            w.check_other(where)
        finally:
            w.destroy()
    reached()


_FIRST = ['new', 'rewrite0', 'append0', 'consume0', 'savepoint', 'fail_commit>', 'fail_vote>', 'undo', 'pack']
# first steps that are applicable right after the initial commit (a shard whose first step never applies would be vacuous)
_FIRST_OK = [c_ for c_ in CODES if c_ not in ('rollback', 'pack_mid')]
HARNESSES = [
    Harness('program', h_program,
            decides='after every step of any blob program: committed *.blob files == committed blob revisions (bytes identical, never '
                    'modified), no file of an aborted / failed transaction remains, no leftovers in the blob directory, readers in '
                    'every connection get exactly the committed (or own uncommitted) bytes, undo restores the previous bytes, pack '
                    'removes exactly the files of removed revisions',
            symbolic='n step codes over 14 operations (create, rewrite, append, consume file, savepoint, rollback, commit, abort, '
                     '3 failing-commit phases, undo, pack)',
            bounds='program length n (quick: 2 exhaustively, 3 split by first step); <= 4 blobs; with/without another object in the transaction',
            oracle='model of committed blob revisions + directory listing of the blob directory',
            code=['Blob.open/consumeFile/_p_invalidate/_uncommitted', 'BlobStorageMixin.storeBlob/_blob_storeblob/_blob_tpc_abort/'
                  '_blob_tpc_finish', 'FileStorage._abort/_finish_finish/undo (blob copy)/pack (_remove_blob_files_tagged_for_removal_during_pack)',
                  'BlobStorage.tpc_abort/tpc_finish/undo/pack', 'Connection._store_objects (blobs)', 'TmpStore.storeBlob/loadBlob'],
            quick=dict(timeout=200, shards=shards(n=[2], kind=['file', 'mapping', 'proxy'], other=[True], first=['any'])
                       + shards(n=[3], kind=['file'], other=[False], first=_FIRST) + shards(n=[3], kind=['proxy'], other=[False], first=['undo', 'rewrite0'])),
            thorough=dict(timeout=3000, shards=shards(n=[3], kind=['file', 'proxy'], other=[True, False], first=_FIRST_OK)
                          + shards(n=[3], kind=['mapping'], other=[True, False], first=[c_ for c_ in _FIRST_OK if c_ != 'undo'])
                          + shards(n=[4], kind=['file'], other=[True], first=_FIRST_OK))),
    Harness('directed_sp', h_directed_sp,
            decides='blob writes around savepoints: after rolling back to the first savepoint (also with a later savepoint taken in '
                    'between) the blob reads the savepoint bytes; commit stores exactly the final bytes, abort discards all',
            symbolic='3 write selectors (nothing/rewrite/append/consume/new), optional second savepoint, commit or abort',
            bounds='programs of 4-7 steps of this shape', oracle='blob model',
            code=['TmpStore.storeBlob/loadBlob/reset', 'Connection._rollback_savepoint', 'Blob._p_invalidate'],
            quick=dict(timeout=150, shards=shards(kind=['file', 'mapping', 'proxy'])), thorough=dict(timeout=300, shards=shards(kind=['file', 'mapping', 'proxy']))),
    Harness('directed_undo_pack', h_directed_undo_pack,
            decides='write/commit/undo chains followed by a pack to now or to an earlier time: the *.blob files are exactly those of the '
                    'revisions the pack keeps (undo revisions included), bytes identical',
            symbolic='4 booleans (undo / further write / second undo / an undo of the two newest transactions in one transaction), selector for a second blob created in the first/second transaction, final step selector (pack to now / two transactions back / nothing / an undo of the two newest transactions whose commit fails at the vote)',
            bounds='programs of 5-10 steps of this shape', oracle='blob revision model',
            code=['FileStorage.undo (blob copy)', 'fspack.copyDataRecords (blob_removed)', 'FileStorage._remove_blob_files_tagged_for_removal_during_pack',
                  'BlobStorage._packNonUndoing/_packUndoing'],
            quick=dict(timeout=400, shards=shards(kind=['file', 'mapping', 'proxy'])), thorough=dict(timeout=700, shards=shards(kind=['file', 'mapping', 'proxy']))),
    Harness('directed_unlink_pack', h_directed_unlink_pack,
            decides='a blob unlinked from the root and written again later (linked again or not): after a pack to any transaction '
                    'boundary the files of all revisions written after the pack time exist, those of superseded / garbage revisions are gone',
            symbolic='optional rewrite before the unlink, action after it (none / rewrite+link / rewrite while unreachable), pack-time selector over all boundaries',
            bounds='one blob, 4-6 transactions', oracle='blob revision model + root membership per transaction',
            code=['fspack.copyDataRecords (blob_removed)', 'GC.findReachable*', 'FileStorage._remove_blob_files_tagged_for_removal_during_pack',
                  'BlobStorage._packNonUndoing'],
            quick=dict(timeout=150, shards=shards(kind=['file', 'mapping', 'proxy'])), thorough=dict(timeout=300, shards=shards(kind=['file', 'mapping', 'proxy']))),
    Harness('foreign_abort', h_foreign_abort,
            decides='tpc_abort with a transaction other than the one being committed, at any point of a blob commit, has no effect: '
                    'the commit finishes with all blob files in place',
            symbolic='point of the foreign call (after begin / after the stores / after the vote), number of blobs (1-2)',
            bounds='storage-level two-phase commit of 1-2 new blobs', oracle='loadBlob bytes',
            code=['BlobStorage.tpc_abort', 'BlobStorageMixin._blob_tpc_abort/storeBlob', 'BaseStorage.tpc_abort', 'FileStorage._abort'],
            quick=dict(timeout=60, shards=shards(kind=['file', 'mapping', 'proxy'])), thorough=dict(timeout=120, shards=shards(kind=['file', 'mapping', 'proxy']))),
    Harness('foreign_finish', h_foreign_finish,
            decides='a refused tpc_finish (foreign transaction after the stores / after the vote; callback raising before the commit point) '
                    'followed by the abort leaves no blob file of the transaction, and the next blob commit works',
            symbolic='point (after the stores / after the vote), kind of refusal (2), number of blobs (1-2)',
            bounds='storage-level two-phase commit of 1-2 new blobs', oracle='blob directory listing before/after',
            code=['BlobStorage.tpc_finish', 'BlobStorageMixin._blob_tpc_finish/_blob_tpc_abort', 'FileStorage.tpc_finish/_abort'],
            quick=dict(timeout=60, shards=shards(kind=['file', 'mapping', 'proxy'])), thorough=dict(timeout=120, shards=shards(kind=['file', 'mapping', 'proxy']))),
    Harness('undo_fault', h_undo_fault,
            decides='an undo of a blob transaction during which any one file-system operation of the blob code fails (incl. a blob '
                    'copy cut after its first byte) either stands completely or leaves no file of the undo behind; undo works afterwards',
            symbolic='f = index of the failing operation (0..9), optional third transaction with a second blob', bounds='one fault per undo',
            oracle='blob revision model + directory listing', code=['BlobStorage.undo', 'FileStorage._txn_undo_write (blob copy)', '_blob_storeblob', '_blob_tpc_abort'],
            quick=dict(timeout=100, shards=shards(kind=['file', 'proxy'])), thorough=dict(timeout=200, shards=shards(kind=['file', 'proxy']))),
    Harness('fault', h_fault,
            decides='a commit during which any one file-system operation of the blob code fails either stands completely or leaves '
                    'no file of that transaction; the next transaction commits normally',
            symbolic='2 step codes (7 blob operations), f = index of the failing file-system operation (0..11)',
            bounds='one fault per commit', oracle='as program',
            code=['BlobStorageMixin._blob_storeblob', 'rename_or_copy_blob', 'FilesystemHelper.getPathForOID', '_blob_tpc_abort'],
            quick=dict(timeout=200, shards=shards(kind=['file'], other=[False, True])),
            thorough=dict(timeout=900, shards=shards(kind=['file', 'mapping'], other=[False, True]))),
]

MANIFEST = dict(
    text='Bounded solver-driven program exploration against the real blob code on a scratch directory: step codes, the '
         'failing 2PC phase and the index of the failing file-system operation are solver variables; the bounded space is '
         'exhausted and, after every step, the directory listing and file bytes of the blob directory are compared with a '
         'model of committed blob revisions, and reads in the working and in a fresh connection with the model.',
    note='real file system scratch directory (blob files are io.FileIO); contents concrete; programs of <= 3 (quick) / 4 steps; '
         'directed families of up to 10 steps; storages: FileStorage+blob_dir, BlobStorage over MappingStorage, BlobStorage over FileStorage; pack to now or to an earlier boundary; undo of the newest or the second-newest transaction; ZEO/ClientStorage blob caches not covered.',
    design_ref='DESIGN.md section 4, C13',
)
