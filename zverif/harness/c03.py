"""C03 - no lost updates: writers of the same object cannot both commit blindly.

H-ARG: the caller's `serial` (the revision the writer claims to have started from) is 8 free
bytes in store / deleteObject / checkCurrentSerialInTransaction of every bundled storage; the
oracle says: accepted as-is iff it equals the committed revision id (or the object is new),
merged iff it names an older existing revision of a resolvable object, ConflictError (and an
unchanged storage after the abort) otherwise.
H-SCHED: a second writer's whole commit is injected at a symbolic yield point of the first
writer's two-phase commit; both starting from the same revision, at most one may commit.
"""
import sys

import ZODB.FileStorage  # noqa: F401
import ZODB.DemoStorage
import ZODB.MappingStorage

from zverif import battery as B
from zverif import pobj
from zverif import templates as T
from zverif.api import assume, check, fail, reached, untraced, choose, realize, note
from zverif.model.revstore import MRec, MTxn
from zverif.spec import Harness, shards
from zverif.symenv import codec, locks

codec.install()

ASSUMPTIONS = [
    'history RC: oid 1 = resolvable counter with 3 revisions, oid 2 = opaque bytes with 2 revisions, oid 3 = class '
    'without resolver; object states are concrete representatives (pickle boundary)',
    'two writers, one shared object, both started from the same revision (commit-lock harness); the second writer\'s '
    'whole commit is injected atomically at one yield point (lock operation, file-system call, or between two API '
    'calls of the first writer)',
    'pure-Python BTrees/zodbpickle (PURE_PYTHON=1) during symbolic execution',
]


def RC(h):
    h.commit([(T.oid(1), pobj.counter_record(1, 'a')), (T.oid(2), b'opaque-1'), (T.oid(3), pobj.record(pobj.PNoResolve(1)))])
    h.commit([(T.oid(1), pobj.counter_record(2, 'b')), (T.oid(2), b'opaque-2')])
    h.commit([(T.oid(1), pobj.counter_record(3, 'c'))])


def _mk(storage):
    env = T.Env()
    if storage == 'file':
        s = env.filestorage()
        h = T.Hist(s)
        RC(h)
    elif storage == 'mapping':
        s = env.mappingstorage()
        h = T.Hist(s)
        RC(h)
    elif storage == 'demo':            # first two transactions in the base, the third in the changes
        base = env.mappingstorage()
        hb = T.Hist(base)
        hb.commit([(T.oid(1), pobj.counter_record(1, 'a')), (T.oid(2), b'opaque-1'), (T.oid(3), pobj.record(pobj.PNoResolve(1)))])
        hb.commit([(T.oid(1), pobj.counter_record(2, 'b')), (T.oid(2), b'opaque-2')])
        s = ZODB.DemoStorage.DemoStorage(base=base)
        h = T.Hist(s, hb.m.copy())
        h.serial = dict(hb.serial)
        h.commit([(T.oid(1), pobj.counter_record(3, 'c'))])
    elif storage == 'demo_file':
        base = env.mappingstorage()
        hb = T.Hist(base)
        hb.commit([(T.oid(1), pobj.counter_record(1, 'a')), (T.oid(2), b'opaque-1'), (T.oid(3), pobj.record(pobj.PNoResolve(1)))])
        s = ZODB.DemoStorage.DemoStorage(base=base, changes=env.filestorage())
        h = T.Hist(s, hb.m.copy())
        h.serial = dict(hb.serial)
        h.commit([(T.oid(1), pobj.counter_record(2, 'b')), (T.oid(2), b'opaque-2')])
        h.commit([(T.oid(1), pobj.counter_record(3, 'c'))])
    else:
        raise ValueError(storage)
    return env, s, h


def _bat(s, m):
    demo = isinstance(s, ZODB.DemoStorage.DemoStorage)
    B.full_battery(s, m, data_txn=hasattr(s, '_file'), undo_log=hasattr(s, 'undoLog') and not demo, iterator=not demo)


NEW = {1: pobj.counter_record(10, 'w'), 2: b'opaque-new', 3: pobj.record(pobj.PNoResolve(9)), 4: b'brand-new'}


def h_store_serial(serial: bytes, which: int, storage: str) -> None:
    assume(len(serial) == 8)
    with untraced():
        from ZODB.POSException import ConflictError
        env, s, h = _mk(storage)
        pobj.PCounter.calls = []
        pobj.PCounter.mode = 'value'
        import ZODB.ConflictResolution as CR
        CR._unresolvable.clear()
    n = choose(which, 4) + 1
    o = T.oid(n)
    revs = h.m.revs(o)
    cur = revs[-1][0] if revs else None
    t = T.meta(b'w', b'store with symbolic serial')
    s.tpc_begin(t)
    raised = False
    first = None
    if n != 3:
        # the writer's transaction also writes another object, legitimately, before the one in question
        first = T.oid(3)
        s.store(first, h.m.revs(first)[-1][0], NEW[3], '', t)
    try:
        s.store(o, serial, NEW[n], '', t)
    except ConflictError:
        raised = True
    # ---- oracle ----
    resolvable = (n == 1 and storage != 'mapping')
    older = [tid for tid, _ in revs[:-1]]
    if cur is None or serial == cur:
        check(not raised, 'store with the current serial (or of a new object) was refused', n, serial)
        expect = NEW[n]
    elif resolvable and serial in older:
        check(not raised, 'resolvable conflict was not resolved', serial)
        expect = 'merged'
    else:
        check(raised, 'store based on a revision that is not current was accepted: lost update', n, serial, cur)
        expect = None
    with untraced():
        if expect is None:
            s.tpc_abort(t)
            _bat(s, h.m)                      # nothing stored
            # ... and nothing of the refused transaction leaks into the next one
            t2 = T.meta(b'w', b'after the conflict')
            s.tpc_begin(t2)
            s.store(T.oid(77), T.Z64, b'unrelated-new-object', '', t2)
            s.tpc_vote(t2)
            tid2 = s.tpc_finish(t2)
            h.m.add(MTxn(tid2, [MRec(T.oid(77), b'unrelated-new-object')], b'w', b'after the conflict'))
            _bat(s, h.m)
        else:
            res = s.tpc_vote(t)
            tid = s.tpc_finish(t)
            from ZODB.utils import load_current
            data, got_tid = load_current(s, o)
            check(got_tid == tid, 'new revision id is not the commit id')
            if expect == 'merged':
                check(res and o in list(res), 'resolved oid not reported by tpc_vote', res)
                old_i = older.index(realize(serial))
                olds = pobj.state_of(revs[old_i][1].data)
                comm = pobj.state_of(revs[-1][1].data)
                news = pobj.state_of(NEW[1])
                want = dict(news, n=comm['n'] + news['n'] - olds['n'],
                            tag='merge(%s|%s|%s)' % (olds['tag'], comm['tag'], news['tag']))
                check(pobj.state_of(data) == want, 'stored state is not resolver(old, committed, new)',
                      pobj.state_of(data), want)
                check(pobj.PCounter.calls == [(olds, comm, news)], 'resolver got the wrong three states')
            else:
                check(not res or o not in list(res), 'unresolved store reported as resolved')
                check(data == expect, 'stored bytes differ from what the writer sent')
            h.m.add(MTxn(tid, ([MRec(first, NEW[3])] if first else []) + [MRec(o, data)], b'w', b'store with symbolic serial'))
            _bat(s, h.m)
    reached()


def h_delete_serial(serial: bytes, which: int) -> None:
    assume(len(serial) == 8)
    with untraced():
        from ZODB.POSException import ConflictError, POSKeyError
        env, s, h = _mk('file')
    n = choose(which, 3) + 1
    if n == 3:
        n = 4
    o = T.oid(n)
    revs = h.m.revs(o)
    t = T.meta(b'w', b'delete')
    s.tpc_begin(t)
    outcome = 'ok'
    try:
        s.deleteObject(o, serial, t)
    except ConflictError:
        outcome = 'conflict'
    except POSKeyError:
        outcome = 'nokey'
    if not revs:
        check(outcome == 'nokey', 'delete of an unknown object', outcome)
    elif serial == revs[-1][0]:
        check(outcome == 'ok', 'delete with the current serial refused', outcome)
    else:
        check(outcome == 'conflict', 'delete based on a stale revision accepted', serial)
    with untraced():
        if outcome == 'ok':
            s.tpc_vote(t)
            tid = s.tpc_finish(t)
            h.m.add(MTxn(tid, [MRec(o, None, 0)], b'w', b'delete'))
        else:
            s.tpc_abort(t)
        _bat(s, h.m)
    reached()


def h_check_current(serial: bytes, which: int, storage: str) -> None:
    """checkCurrentSerialInTransaction: a declared dependency that is no longer current fails the commit."""
    assume(len(serial) == 8)
    with untraced():
        from ZODB.POSException import ReadConflictError, POSKeyError
        env, s, h = _mk(storage)
    n = choose(which, 3) + 1
    if n == 3:
        n = 4
    o = T.oid(n)
    revs = h.m.revs(o)
    t = T.meta(b'w', b'readCurrent')
    s.tpc_begin(t)
    raised = False
    try:
        s.checkCurrentSerialInTransaction(o, serial, t)
    except ReadConflictError:
        raised = True
    except POSKeyError:
        raised = 'nokey'
    if not revs:
        # a dependency on an object that does not exist cannot be current: the commit must fail (either error)
        check(raised, 'dependency on a missing object accepted', serial, raised)
    else:
        check(raised == (serial != revs[-1][0]), 'stale dependency accepted / current dependency refused', serial, raised)
    with untraced():
        s.tpc_abort(t)
        _bat(s, h.m)
    reached()


def h_read_current(use_sp: bool, when: int, also_write: bool, storage: str, rolled: bool = False, late: bool = False) -> None:
    """Connection level: a transaction declares with readCurrent(x) that it depends on x being current;
    another connection commits x at a solver-chosen moment; the commit must then fail
    (ReadConflictError, or ConflictError if x is also written) and store nothing - with and without a
    savepoint in the transaction."""
    with untraced():
        import transaction
        import ZODB
        from ZODB.POSException import ConflictError
        env = T.Env()
        if storage == 'file':
            s = env.filestorage()
        elif storage == 'mapping':
            s = env.mappingstorage()
        else:
            s = ZODB.DemoStorage.DemoStorage(base=env.mappingstorage())
        db = ZODB.DB(s)
        tm0 = transaction.TransactionManager()
        c0 = db.open(tm0)
        c0.root()['x'] = pobj.PObj(v=1)
        c0.root()['y'] = pobj.PObj(v=1)
        tm0.commit()
        tm, tmo = transaction.TransactionManager(), transaction.TransactionManager()
        c, co = db.open(tm), db.open(tmo)
    w = choose(when, 4)         # 0: never, 1: before readCurrent, 2: after readCurrent, 3: after the savepoint / last write
    assume(rolled or not late)  # late: the dependency is declared only while x is tentatively modified (then rolled back)
    with untraced():
        def other():
            tmo.begin()
            co.root()['x'].v += 100
            tmo.commit()
        tm.begin()
        x, y = c.root()['x'], c.root()['y']
        x.v                                     # loaded: the transaction has seen revision 1 of x
        if w == 1:
            other()
        if not late:
            c.readCurrent(x)
        if w == 2:
            other()
        y.v = 2
        if rolled:
            # x is written tentatively, saved by a savepoint, and that is rolled back: x is only read again - the
            # declaration made before still stands
            sp1 = tm.savepoint()
            x.v = 9
            if late:
                c.readCurrent(x)
            tm.savepoint()
            sp1.rollback()
            y.v = 2
        if also_write:
            x.v = 5
        if use_sp:
            tm.savepoint()
            y.v = 3
        if w == 3:
            other()
        before = s.lastTransaction()
        try:
            tm.commit()
            ok = True
        except ConflictError:               # ReadConflictError is a ConflictError
            ok = False
            tm.abort()
        note('case', 'sp=%s when=%d write=%s rolled=%s late=%s' % (use_sp, w, also_write, rolled, late))
        check(ok == (w == 0), 'commit of a transaction whose declared dependency changed was accepted (or a valid one refused)', w, ok)
        if not ok:
            check(s.lastTransaction() == before, 'failed commit stored a transaction')
            tm.begin()
            check(c.root()['y'].v == 1, 'aborted change still visible after the conflict', c.root()['y'].v)
            # a retry on fresh state succeeds
            c.root()['x'].v                  # read it (readCurrent is about objects the transaction has read)
            c.readCurrent(c.root()['x'])
            c.root()['y'].v = 7
            tm.commit()
        db.close()
    reached()


def h_commit_lock(at: int, storage: str, same: bool = True) -> None:
    """Second writer's whole commit injected at yield point `at` of the first writer's 2PC.  same=False: the two write
    different objects - both commit, and their ids follow the order in which the commits finished."""
    assume(at >= 0)
    with untraced():
        from ZODB.POSException import ConflictError
        env = T.Env()
        sch = locks.install(env.fs)
        try:
            if storage == 'file':
                s = env.filestorage()
            elif storage == 'mapping':
                s = env.mappingstorage()
            else:
                s = ZODB.DemoStorage.DemoStorage(base=env.mappingstorage(), changes=env.mappingstorage())
            h = T.Hist(s)
            h.commit([(T.oid(1), b'base')])
            base = h.serial[T.oid(1)]
            out = {}

            order = []

            def writer(name, data):
                t = T.meta(name.encode())
                try:
                    s.tpc_begin(t)
                    sch.point('api')
                    if same:
                        s.store(T.oid(1), base, data, '', t)
                    else:
                        s.store(T.oid(2 if name == 'A' else 3), T.Z64, data, '', t)
                    sch.point('api')
                    s.tpc_vote(t)
                    sch.point('api')
                    # (the callback runs at the commit point, under the storage's lock: the order of the commits)
                    out[name] = s.tpc_finish(t, lambda tid: order.append(name))
                except ConflictError:
                    s.tpc_abort(t)
                    out[name] = 'conflict'

            sch.add(at, lambda: writer('B', b'from-B'), tid=1, name='writer B')
            sch.start()
            try:
                sch.point('api')
                writer('A', b'from-A')
                sch.point('api')
            except locks.Blocked:
                note('blocked')
                sch.stop()
                assume(False)
            sch.stop()
            assume('B' in out)            # `at` beyond the last yield point: nothing injected
            note('outcome', '%s/%s' % ('ok' if out['A'] != 'conflict' else 'conflict',
                                         'ok' if out['B'] != 'conflict' else 'conflict'))
            if not same:
                check(out['A'] != 'conflict' and out['B'] != 'conflict', 'writers of different objects conflict', out)
                first, second = order
                check(out[first] < out[second], 'the commit that finished later got the smaller transaction id', order, out, sch.trace)
                check(s.lastTransaction() == out[second], 'lastTransaction is not the id of the commit that finished last', order, out)
                reached()
                return
            oks = [k for k in ('A', 'B') if out[k] != 'conflict']
            check(len(oks) == 1, 'two writers that started from the same revision both committed (lost update) '
                                 'or none could', out.get('A'), out.get('B'), sch.trace)
            from ZODB.utils import load_current
            data, tid = load_current(s, T.oid(1))
            check(data == (b'from-' + oks[0].encode()) and tid == out[oks[0]], 'final state is not the winner\'s')
        finally:
            locks.uninstall()
            env.fs.hook = None
    reached()


_ST = ['file', 'mapping', 'demo', 'demo_file']
from zverif.harness.c12 import h_program as _conn_program  # noqa: E402

HARNESSES = [
    Harness('store_serial', h_store_serial,
            decides='store(oid, serial, ...) is accepted as-is iff serial is the committed revision (or the object is new), '
                    'merged by the class resolver iff serial names an older revision of a resolvable object, and refused '
                    'with ConflictError (storage unchanged) otherwise',
            symbolic='serial (8 free bytes), object selector (resolvable / opaque / no resolver / new)',
            bounds='history RC (3 revisions); 4 objects', oracle='RevStore + resolver arithmetic', pure_python=True,
            code=['FileStorage.store', 'MappingStorage.store', 'DemoStorage.store', 'tryToResolveConflict', 'loadSerial'],
            quick=dict(timeout=150, shards=shards(storage=_ST)),
            thorough=dict(timeout=600, shards=shards(storage=_ST))),
    Harness('delete_serial', h_delete_serial,
            decides='deleteObject with a stale serial is refused', symbolic='serial (8 free bytes), object selector',
            bounds='history RC', oracle='RevStore', code=['FileStorage.deleteObject'],
            quick=dict(timeout=100), thorough=dict(timeout=300)),
    Harness('check_current', h_check_current,
            decides='a declared read dependency fails the commit iff the object changed since',
            symbolic='serial (8 free bytes), object selector', bounds='history RC', oracle='RevStore', pure_python=True,
            code=['BaseStorage.checkCurrentSerialInTransaction'],
            quick=dict(timeout=100, shards=shards(storage=_ST)),
            thorough=dict(timeout=300, shards=shards(storage=_ST))),
    Harness('read_current', h_read_current,
            decides='Connection.readCurrent: if the declared dependency is changed by another connection at any of 3 moments, the commit '
                    'fails and stores nothing (with/without savepoint, with/without also writing the object); otherwise it succeeds',
            symbolic='moment selector (never / before / after readCurrent / after the last write)', bounds='2 objects, 2 connections',
            oracle='outcome table', code=['Connection.readCurrent', 'Connection.commit (readCurrent verification)', '_commit_savepoint', 'tpc_vote'],
            quick=dict(timeout=100, shards=shards(use_sp=[False, True], also_write=[False, True], storage=['file', 'mapping', 'demo'])),
            thorough=dict(timeout=100, shards=shards(use_sp=[False, True], also_write=[False, True], storage=['file', 'mapping', 'demo']))),
    Harness('commit_lock', h_commit_lock,
            decides='a second writer from the same base revision, injected anywhere into the first writer\'s 2PC, either '
                    'blocks, or exactly one of the two commits and the other gets ConflictError',
            symbolic='injection point `at` (free int over all yield points: lock operations, file-system calls, API boundaries)',
            bounds='2 writers, 1 object, one atomic injection (context bound K=1)', oracle='exactly one winner; final state is the winner\'s',
            code=['BaseStorage.tpc_begin/tpc_finish/tpc_abort', 'FileStorage.store/tpc_vote/tpc_finish', 'MappingStorage.tpc_*',
                  'DemoStorage.tpc_*'],
            quick=dict(timeout=100, shards=shards(storage=['file', 'mapping', 'demo'])),
            thorough=dict(timeout=300, shards=shards(storage=['file', 'mapping', 'demo']))),
    Harness('connection_failed_commit', _conn_program,
            decides='connection level: after a commit refused with a conflict in the middle of storing (also when the data comes from '
                    'savepoints) the connection shows the committed state again, so that the retry cannot commit values derived from the '
                    'refused transaction (C12 program harness, shards starting with a modification)',
            symbolic='step codes of programs over modify / add / savepoint / rollback / commit / abort / a conflicting commit by another connection',
            bounds='program length 4, first step fixed per shard', oracle='connection state model (zverif/progs.py)',
            code=['Connection._commit_savepoint/_store_objects/tpc_abort/_abort'],
            quick=dict(timeout=200, shards=shards(n=[4], storage=['file'], first=['modify0', 'modify1'])),
            thorough=dict(timeout=900, shards=shards(n=[4], storage=['file', 'mapping'], first=['modify0', 'modify1', 'savepoint', 'other0']))),
]

MANIFEST = dict(
    text='Bounded symbolic execution of the real store/deleteObject/checkCurrentSerialInTransaction code of all bundled '
         'storages with the caller\'s serial as 8 free bytes (so "equal to the committed id" versus every other value is '
         'decided by the solver, not sampled), plus a sequentialised two-writer schedule search in which the injection '
         'point of the second writer is a solver variable over every lock/file/API yield point of the first writer\'s 2PC.',
    note='object states are concrete representatives; 2 writers, 1 atomic injection (K=1); schedules below lock/file-op '
         'granularity and more than two concurrent committers are outside the claim; Connection-level readCurrent by selector (read_current); '
         'writers of different objects: ids in commit order; connection_failed_commit = C12 program harness (length 4).',
    design_ref='DESIGN.md section 4, C03',
)
