"""C11 - in-memory objects follow the outcome of their transaction.

H-PROG: solver-chosen programs over {modify, attach a new object (implicitly / explicitly
added), detach, commit, abort, commit that fails in a solver-chosen phase of two-phase commit
(another participant fails before or after the connection), close + reopen the connection}
interpreted against the real DB/Connection; after every step the objects' ownership and state
(_p_changed, _p_serial, _p_oid, _p_jar, attribute values on next access) and - per commit -
the records written (exactly the changed and newly reachable objects, under one transaction
id) are compared with a model written from the property text.
"""
import sys

from zverif import graph as GR
from zverif import progs
from zverif import templates as T
from zverif.api import assume, check, fail, reached, untraced, choose, realize, note, pick
from zverif.spec import Harness, shards
from zverif.symenv import codec

codec.install()

ASSUMPTIONS = [
    'object values concrete (pickle boundary); the solver ranges over programs (step codes) only',
    'failed commits are produced by a second data manager joined to the transaction that raises in tpc_begin / commit / '
    'tpc_vote, sorted before or after the ZODB connection, so the connection is interrupted after 0, some or all of its '
    'own begin/commit/vote steps; storage-level I/O failures are C05',
    'multi-database: two databases, one group of two connections (harness multidb); persistent classes: C12 pclass only',
]

CODES = ['modify0', 'modify1', 'add', 'add_explicit', 'detach0', 'commit', 'abort',
         'fail_begin<', 'fail_commit<', 'fail_vote<', 'fail_commit>', 'fail_vote>', 'reopen', 'other0', 'fail_pickle', 'add_child0']
# (a first step only, not drawn for later steps: keeps the program space as it was)
FIRST_ONLY = ['fail_pickle_add']


def _records_of(s, tid):
    it = s.iterator(tid, tid)
    try:
        return [(r.oid, r.tid) for t in it for r in t]
    finally:
        if hasattr(it, 'close'):
            it.close()


def _check_ownership(w, where, boundary):
    """Ownership and cleanliness of every object the program ever created."""
    for name, ob in w.obj.items():
        committed = name in w.committed
        if name in w.work:
            if boundary:
                check(ob._p_jar is w.c and ob._p_oid is not None, 'stored object lost its database (%s)' % where, name)
        elif not committed and name not in w.fresh and name not in w.ever:
            check(ob._p_jar is None and ob._p_oid is None,
                  'object that was new in an aborted/failed transaction still belongs to a database (%s)' % where, name, ob._p_oid)


def _run(codes, storage):
    w = progs.World(storage)
    w.add()
    w.add()
    w.commit()
    trace = []
    detached = {}
    for code in codes:
        before_last = w.s.lastTransaction()
        changed_before = set(n for n in w.work if w.committed.get(n) != w.work[n])
        t = None
        if code.startswith('modify'):
            t = w.modify(int(code[-1]))
        elif code == 'add':
            t = w.add()
        elif code == 'add_explicit':
            t = w.add(explicit=True)
        elif code == 'detach0':
            t = w.detach(0)
        elif code == 'add_child0':
            t = w.add_child(0)
        elif code == 'commit':
            root_changed = set(w.work) != set(w.committed) or getattr(w, 'work_scalar', None) != getattr(w, 'committed_scalar', None)
            t = w.commit()
            expect = w.last_stored
            tid = w.s.lastTransaction()
            if t == 'C!conflict':
                check(tid == before_last, 'commit refused with a conflict stored a transaction')
            elif expect or root_changed:
                check(tid != before_last, 'commit with changes wrote no transaction')
                recs = _records_of(w.s, tid)
                oids = [o for o, _ in recs]
                want = set(w.obj[n]._p_oid for n in expect)
                if root_changed:
                    want.add(T.Z64)
                check(set(oids) == want and len(oids) == len(set(oids)),
                      'records written by the commit are not exactly the changed and newly reachable/added objects', sorted(oids), sorted(want))
                check(all(rt == tid for _, rt in recs), 'records of one commit carry different transaction ids')
                for n in expect:
                    ob = w.obj[n]
                    check(ob._p_serial == tid and ob._p_changed is False, 'committed object is not clean with the commit id', n,
                          ob._p_serial, ob._p_changed)
            else:
                check(tid == before_last, 'commit without changes wrote a transaction')
        elif code == 'abort':
            t = w.abort()
        elif code == 'other0':
            t = w.other_commit(0)
        elif code in ('fail_pickle', 'fail_pickle_add'):
            t = w.unpicklable_commit(explicit=code.endswith('_add'))
            check(w.s.lastTransaction() == before_last, 'failed commit stored a transaction')
        elif code.startswith('fail_'):
            phase = code[5:-1]
            t = w.failing_commit(phase, first=code.endswith('<'))
            check(w.s.lastTransaction() == before_last, 'failed commit stored a transaction')
        elif code == 'reopen':
            # a connection can be closed only outside a transaction
            dirty = bool(w.c._registered_objects) or bool(w.c._added) or w.tm.get()._resources
            if w.tm.get()._resources:
                try:
                    w.c.close()
                    fail('connection closed while joined to a transaction')
                except Exception as ex:
                    from ZODB.POSException import ConnectionStateError
                    check(isinstance(ex, ConnectionStateError), 'wrong error closing a connection inside a transaction', type(ex).__name__)
                w.abort()
            w.c.close()
            # opening is a transaction boundary: the connection catches up with what others committed
            w.work = dict(w.committed)
            w.other_changed = set()
            w.c = w.db.open(w.tm)          # any pooled Connection object may come back
            w.root = w.c.root()
            for name in list(w.obj):        # objects are per connection: re-fetch the ones that are stored
                if name in w.root:
                    w.obj[name] = w.root[name]
                elif name in w.ever:
                    del w.obj[name]         # stored but unreachable: no handle in the new connection
            t = 'reopen'
        if t is None:
            assume(False)
        trace.append(t)
        where = ' '.join(trace)
        boundary = code in ('commit', 'abort', 'reopen') or code.startswith('fail_')
        w.check_view(where)
        _check_ownership(w, where, boundary)
        if boundary:
            w.check_clean(where)
            w.check_other_connection(where)
    # every object that was disowned can be added again later
    w.readd_disowned(' '.join(trace))
    w.commit()
    w.check_view('re-add + final commit after ' + ' '.join(trace))
    w.check_other_connection('final commit after ' + ' '.join(trace))
    w.close()


def h_program(c0: int, c1: int, c2: int, c3: int, c4: int, n: int, storage: str, first: str) -> None:
    cs = [c0, c1, c2, c3, c4]
    codes = []
    for i in range(5):
        if i >= n:
            assume(cs[i] == 0)
            continue
        if i == 0 and first != 'any':
            assume(cs[0] == 0)
            codes.append(first)
        else:
            codes.append(CODES[pick(cs[i], 0, len(CODES))])
    with untraced():
        _run(codes, storage)
    reached()


MCODES = ['modify_one', 'modify_two', 'add_two', 'link', 'commit', 'abort', 'close']


def h_multidb(c0: int, c1: int, c2: int, c3: int, n: int, storage: str) -> None:
    """Programs over a multi-database (a primary connection to database one and, in its group, a connection to
    database two): changes in either database follow the transaction's outcome, closing the group is refused
    while ANY member is joined to a transaction, and a reused group keeps no uncommitted state."""
    from zverif import multidb
    cs = [c0, c1, c2, c3]
    codes = []
    for i in range(4):
        if i >= n:
            assume(cs[i] == 0)
        else:
            codes.append(MCODES[pick(cs[i], 0, len(MCODES))])
    with untraced():
        w = multidb.MultiWorld(storage)
        try:
            trace = []
            for code in codes:
                if code == 'modify_one':
                    t = w.modify('one')
                elif code == 'modify_two':
                    t = w.modify('two')
                elif code == 'add_two':
                    t = w.add('two')
                elif code == 'link':
                    t = w.link()
                elif code == 'commit':
                    t = w.commit()
                elif code == 'abort':
                    t = w.abort()
                else:
                    t = w.close_reopen()
                trace.append(t)
                where = ' '.join(trace)
                w.check_view(where)
                if code in ('commit', 'abort', 'close') and t != 'close_refused':
                    w.check_clean(where)
                    w.check_other(where)
            # whatever happened: a change made now through the (possibly reused) group is committed
            w.modify('two')
            w.modify('one')
            w.commit()
            where = 'final commit after ' + ' '.join(trace)
            w.check_view(where)
            w.check_other(where)
        finally:
            w.close_all()
    reached()


from zverif.harness.c12 import h_program as _sp_program  # noqa: E402
from zverif.harness.c14 import h_roundtrip as _roundtrip  # noqa: E402

_FIRST = ['modify0', 'add', 'add_explicit', 'detach0', 'fail_vote<', 'fail_commit>', 'reopen', 'other0', 'fail_pickle', 'add_child0']
HARNESSES = [
    Harness('program', h_program,
            decides='after every step of any program: committed changes and newly reachable objects are stored together under one '
                    'id and are clean; after abort / failed commit (any phase) modified objects show their committed state and new '
                    'objects belong to no database and can be added again; close only outside a transaction; a reused connection '
                    'keeps no uncommitted state; other connections see only committed data',
            symbolic='n step codes over 16 operations + 1 that is tried as first step only (incl. 5 failing-commit variants, a commit failing inside the connection while it serialises new objects - reached by reference or handed over with add() -, close/reopen, and another connection committing a change so that our commit conflicts)',
            bounds='program length n per shard (quick: 3 exhaustively - split by first step - + length 4 for 10 first steps; thorough up to 5), 2 committed objects at start',
            oracle='ownership/state model (zverif/progs.py) + records of each commit from storage iteration',
            code=['Connection.add/_register/commit/_commit/_store_objects/tpc_begin/tpc_vote/tpc_finish/tpc_abort/abort/_abort/'
                  '_invalidate_creating/_tpc_cleanup/close/open', 'ObjectWriter.serialize', 'DB.open/_returnToPool'],
            quick=dict(timeout=400, shards=shards(n=[3], storage=['file'], first=CODES + FIRST_ONLY) + shards(n=[4], storage=['file'], first=_FIRST)),
            thorough=dict(timeout=3000, shards=shards(n=[3], storage=['file', 'mapping', 'demo'], first=['any'])
                          + shards(n=[4], storage=['file', 'mapping'], first=CODES + FIRST_ONLY) + shards(n=[5], storage=['file'], first=CODES + FIRST_ONLY))),
    Harness('new_objects', _roundtrip,
            decides='a commit stores exactly the new objects reachable from changed ones (through attributes, plain containers and '
                    'weak references) or added explicitly, each under an id of this database (same harness as C14 roundtrip)',
            symbolic='9 adjacency bits (root->3 new nodes, 6 inter-node edges)', bounds='3 new nodes + root; node kinds / explicit add are shards',
            oracle='reachability over the edge list', code=['ObjectWriter.persistent_id/serialize', 'Connection._store_objects'],
            quick=dict(timeout=150, shards=shards(explicit_add=[False], storage=['file'], kinds=[0])),
            thorough=dict(timeout=900, shards=shards(explicit_add=[False, True], storage=['file', 'mapping'], kinds=[0, 13, 21]))),
    Harness('failed_commit_with_savepoints', _sp_program,
            decides='after a commit that fails with a conflict while the data of savepoints is copied to the storage, every modified object '
                    'shows its last committed state again - also after close and reopen - and the retry commits normally (C12 program harness)',
            symbolic='step codes of programs over modify / add / savepoint / rollback / commit / abort / a conflicting commit by another connection',
            bounds='program length 4, first step fixed per shard', oracle='connection state model (zverif/progs.py)',
            code=['Connection._commit_savepoint', 'tpc_abort (_modified)', 'TmpStore'],
            quick=dict(timeout=200, shards=shards(n=[4], storage=['file'], first=['modify0', 'modify1'])),
            thorough=dict(timeout=900, shards=shards(n=[4], storage=['file', 'mapping'], first=['modify0', 'modify1', 'savepoint', 'other0']))),
    Harness('multidb', h_multidb,
            decides='in a multi-database (primary connection + a connection to a second database in its group): changes in either '
                    'database follow the outcome of the transaction, closing the group is refused while any member is joined to a '
                    'transaction, a reused group shows only committed state and its later changes are committed; cross-database '
                    'references lead to the object of the group\'s own connection',
            symbolic='n step codes over 7 operations (modify in database one / two, new object in two, cross-database reference, commit, abort, close+reopen)',
            bounds='program length n (quick 3, thorough 4); two databases', oracle='per-database committed / working model (zverif/multidb.py)',
            code=['Connection.get_connection/close/open/_register/commit/tpc_*', 'DB.open/_returnToPool', 'ObjectWriter.persistent_id (cross-database)',
                  'ObjectReader.load_multi_persistent/load_multi_oid'],
            quick=dict(timeout=200, shards=shards(n=[3], storage=['mapping'])),
            thorough=dict(timeout=1200, shards=shards(n=[3, 4], storage=['mapping', 'file']))),
]

MANIFEST = dict(
    text='Bounded solver-driven program exploration against the real DB/Connection: step codes (16 operations including '
         'commits failing in each 2PC phase before/after the connection, a commit failing while the connection serialises, a conflicting '
         'commit by another connection, and close/reopen) are solver variables; the bounded '
         'program space is exhausted and an ownership/state model is compared after every step together with the records '
         'each commit wrote.',
    note='object values concrete; program length bounded (3 exhaustively, 4 by shards, 5 thorough); savepoints in C12, blobs in C13; multi-database: two databases, one connection group (multidb).',
    design_ref='DESIGN.md section 4, C11',
)
