"""C06 - undo restores the pre-transaction state or changes nothing.

H-ARG: the id of the transaction to undo is 8 FREE BYTES (the base64 transport encoding of
the undo id is bypassed by a marker so the id stays symbolic): for every id the real
FileStorage.undo must behave as the model says - succeed exactly for the undoable
transactions of the history, writing for each object the state before that transaction (or
the class's merge with later changes), and otherwise raise UndoError leaving every answer
unchanged.  Scenario (intervening change absent / equal / mergeable / conflicting), a second
undo in the same transaction, undo of the undo, and reopen are shards/selectors.
"""
import base64
import sys

import ZODB.FileStorage  # noqa: F401

from zverif import battery as B
from zverif import pobj
from zverif import templates as T
from zverif.api import assume, check, fail, reached, untraced, choose, realize, note
from zverif.model.revstore import MRec, MTxn, RevStore
from zverif.spec import Harness, shards
from zverif.symenv import codec

codec.install()
F = sys.modules['ZODB.FileStorage.FileStorage']
RAW = b'RAW:'

ASSUMPTIONS = [
    'the undo id is passed as a marker + 8 symbolic bytes; FileStorage\'s base64 decoding of the id is bypassed for '
    'marked ids (transport encoding, not undo logic); unmarked ids go through the real decoder',
    'object states are concrete representatives: a resolvable counter (zverif.pobj.PCounter), opaque byte strings',
    'scenarios A (later changes: equal bytes, mergeable), B (a conflicting later change), C (T4: undo records and '
    'un-creation already in the history); <= 8 transactions, 4 objects',
]

_real_decode = F.decodebytes


def _decode(b):
    if b[:4] == RAW:
        return b[4:12]
    return _real_decode(b)


def scenario(h, which):
    c = pobj.counter_record
    if which == 'D':
        # one resolvable object changed four times: pairs of undos in one transaction where the first is a
        # plain pointer copy and the second needs a merge against the in-transaction state
        for n_, tag in ((1, 'a'), (2, 'b'), (5, 'c'), (9, 'd')):
            h.commit([(T.oid(1), c(n_, tag))], desc=b'counter -> %d' % n_)
        return
    h.commit([(T.oid(1), c(1, 'a')), (T.oid(2), b'b1'), (T.oid(3), b'c1')], b'u1', b't1 creates 1,2,3')
    h.commit([(T.oid(1), c(2, 'b')), (T.oid(2), b'b2')], b'u2', b't2 changes 1,2')
    if which == 'A':
        h.commit([(T.oid(2), b'b2')], desc=b't3 rewrites 2 with equal bytes')
    else:
        h.commit([(T.oid(2), b'b3-different')], desc=b't3 conflicting change of 2')
    h.commit([(T.oid(1), c(5, 'c'))], desc=b't4 mergeable change of 1')
    h.commit([(T.oid(4), b'd1')], desc=b't5 creates 4')
    h.commit([(T.oid(3), b'c2')], desc=b't6 changes 3')


class UndoRefused(Exception):
    pass


def _st(x):
    """state dict of a record (bytes) or of an in-transaction merge result ('state', dict)"""
    if isinstance(x, tuple):
        return x[1]
    return pobj.state_of(x)


def _same(a, b):
    if isinstance(a, tuple) or isinstance(b, tuple):
        try:
            return _st(a) == _st(b)
        except Exception:
            return False
    return a == b


def model_undo(m, work, tid):
    """Model of undoing transaction `tid` on top of `work` (oid -> in-transaction state, for multi-undo).
    Returns list of MRec or raises UndoRefused.  Written from the property text."""
    target = m.txn(tid)
    if target is None or target.status != ' ':
        raise UndoRefused('no such undoable transaction')
    recs = []
    written = list(target.written())
    # a transaction that undid several transactions can hold two records of one object: the last one is the
    # object's revision in that transaction, and that is what gets undone
    written = [r for k_, r in enumerate(written) if all(r2.oid != r.oid for r2 in written[k_ + 1:])]
    for r in written:
        o = r.oid
        xs = r.data                                 # state the undone transaction wrote
        pre = m.state_before(o, tid)                # state immediately before it
        pre_tid = None
        for t2, _ in m.revs(o):
            if t2 < tid:
                pre_tid = t2
        if o in work:
            cur, cur_is_x = work[o], False
        else:
            revs = m.revs(o)
            cur, cur_is_x = revs[-1][1].data, revs[-1][0] == tid
        if cur_is_x or _same(cur, xs):
            # no later change, or a later change that is equal in effect: plain restore of the previous state
            recs.append(MRec(o, pre, 0, pre_tid if pre is not None else None))
            work[o] = pre
            continue
        if pre is None:
            raise UndoRefused('created by the undone transaction and changed later')
        merged = None
        try:
            xs_s, cur_s, pre_s = _st(xs), _st(cur), _st(pre)
            if isinstance(xs_s, dict) and 'n' in xs_s:
                merged = dict(pre_s, n=cur_s['n'] + pre_s['n'] - xs_s['n'],
                              tag='merge(%s|%s|%s)' % (xs_s['tag'], cur_s['tag'], pre_s['tag']))
        except Exception:
            merged = None
        if merged is None:
            raise UndoRefused('later change neither equal nor mergeable')
        recs.append(('merged', o, merged))
        work[o] = ('state', merged)
    return recs


def _apply(s, h, ids, user=b'undoer', desc=b'undo'):
    """Run undo(ids...) as one transaction through the real API; returns tid or raises UndoError."""
    t = T.meta(user, desc)
    s.tpc_begin(t)
    try:
        for i in ids:
            s.undo(i, t)
        s.tpc_vote(t)
    except BaseException:
        s.tpc_abort(t)
        raise
    return s.tpc_finish(t)


def _check_outcome(s, h, m, ids_concrete, got_tid, got_err):
    """Compare with the model and extend it."""
    from ZODB.utils import load_current
    work = {}
    try:
        recs = []
        for tid in ids_concrete:
            # every undo appends its records; a later record of the same oid supersedes the earlier one
            recs.extend(model_undo(m, work, tid))
        want_ok = True
    except UndoRefused as e:
        want_ok = False
        why = str(e)
    if not want_ok:
        check(got_err is not None, 'undo succeeded where the model refuses', why, [t.hex() for t in ids_concrete])
        B.full_battery(s, m)            # nothing changed
        return m
    check(got_err is None, 'undo refused where every later change is equal or mergeable', repr(got_err)[:300])
    # the records the undo transaction actually wrote, in file order
    it = s.iterator(got_tid, got_tid)
    try:
        actual = [(r.oid, r.data) for t_ in it for r in t_]
    finally:
        it.close()
    check(len(actual) == len(recs), 'undo transaction wrote a different number of records than objects undone',
          len(actual), len(recs))
    mrecs = []
    for r, (aoid, adata) in zip(recs, actual):
        if isinstance(r, MRec):
            mrecs.append(r)
        else:
            _, o, merged = r
            check(aoid == o, 'undo record order differs')
            check(adata is not None and pobj.state_of(adata) == merged,
                  'merged state differs from resolver(undone, current, previous)',
                  adata and pobj.state_of(adata), merged)
            mrecs.append(MRec(o, adata))
    m2 = m.copy()
    # record order in the file follows the order of records in the undone transaction(s)
    m2.add(MTxn(got_tid, mrecs, b'undoer', b'undo', kind='undo'))
    B.full_battery(s, m2, data_txn=False)
    B.q_iterator(s, m2, data_txn=False)
    return m2


def h_undo_tid(tid: bytes, which: str, reopen: bool) -> None:
    """undo(id) for an arbitrary 8-byte id."""
    assume(len(tid) == 8)
    with untraced():
        from ZODB.POSException import UndoError
        env = T.Env()
        s = env.filestorage()
        h = T.Hist(s)
        if which == 'C':
            T.T4(h)
        elif which == 'P':
            # scenario A, then a pack that turns the first four transactions into packed ones: their ids
            # (possibly kept from an undo log fetched before the pack) must be refused
            scenario(h, 'A')
            s.pack(env.clock.now - 2.5, lambda p: [], gc=False)
            from zverif import graph as GR
            h.m = GR.model_from_storage(s)
            check([t_.status for t_ in h.m.txns].count('p') >= 2, 'harness: the pack did not mark transactions as packed')
        else:
            scenario(h, which)
        if reopen:
            s.close()
            s = env.filestorage()
        F.decodebytes = _decode
        pobj.PCounter.calls = []
        pobj.PCounter.mode = 'value'
    got_tid = got_err = None
    t = T.meta(b'undoer', b'undo')
    s.tpc_begin(t)
    try:
        try:
            s.undo(RAW + tid, t)            # traced: _txn_find compares the symbolic id with each header
            with untraced():
                s.tpc_vote(t)
                got_tid = s.tpc_finish(t)
        except UndoError as e:
            got_err = e
            with untraced():
                s.tpc_abort(t)
    finally:
        F.decodebytes = _real_decode
    # which transaction (if any) does the id name?  decided symbolically, so that the "no such
    # transaction" region is ONE path, not an enumeration of ids
    match = None
    for k_, t_ in enumerate(h.m.txns):
        if tid == t_.tid:
            match = k_
    with untraced():
        ctid = h.m.txns[match].tid if match is not None else b'\xde\xad\xbe\xef\0\0\0\0'
        m2 = _check_outcome(s, h, h.m, [ctid], got_tid, got_err)
        if got_tid is not None:
            # an undo is an ordinary transaction: undoing it restores the undone state
            note('undone', [t_.tid for t_ in h.m.txns].index(ctid))
            try:
                t2 = _apply(s, h, [base64.encodebytes(got_tid).rstrip()], b'undoer', b'undo')
                err2 = None
            except UndoError as e:
                t2, err2 = None, e
            m3 = _check_outcome(s, h, m2, [got_tid], t2, err2)
            check(err2 is None, 'the undo transaction itself could not be undone', repr(err2)[:200])
            s.close()
            s3 = env.filestorage()
            B.full_battery(s3, m3, data_txn=False)
            s3.close()
        else:
            note('refused')
    reached()


def h_multi_undo(i: int, j: int, which: str, again: bool = False) -> None:
    """Two transactions undone in one transaction, in either order (selectors over the history); again: the undo
    transaction is then undone itself, which restores the state before it."""
    with untraced():
        from ZODB.POSException import UndoError
        env = T.Env()
        s = env.filestorage()
        h = T.Hist(s)
        scenario(h, which)
        n = len(h.m.txns)
        pobj.PCounter.calls = []
        pobj.PCounter.mode = 'value'
    a = choose(i, n)
    b = choose(j, n)
    assume(a != b)
    with untraced():
        ids = [h.m.txns[a].tid, h.m.txns[b].tid]
        try:
            got = _apply(s, h, [base64.encodebytes(x).rstrip() for x in ids])
            err = None
        except UndoError as e:
            got, err = None, e
        note('pair', '%d,%d:%s' % (a, b, 'ok' if got else 'refused'))
        m2 = _check_outcome(s, h, h.m, ids, got, err)
        if again and got:
            try:
                got2 = _apply(s, h, [base64.encodebytes(got).rstrip()])
                err2 = None
            except UndoError as e:
                got2, err2 = None, e
            # (a transaction that undid two transactions may hold two records of one object; how many records its own
            # undo writes is not specified - the states are)
            check(err2 is None, 'undo of the undo transaction refused although nothing was committed after it', repr(err2)[:200])
            from ZODB.utils import load_current
            for o in sorted(set(r.oid for r in m2.txn(got).written())):
                want = h.m.revs(o)[-1][1].data if h.m.revs(o) else None
                try:
                    have = load_current(s, o)[0]
                except KeyError:
                    have = None
                check((have == want or _same(('s', _st(have)), ('s', _st(want)))) if (have is not None and want is not None) else have is want,
                      'undo of the undo transaction did not restore the state before it', o, have, want)
    reached()


def h_db_undo(i: int, j: int, two: bool, storage: str) -> None:
    """DB.undo / DB.undoMultiple as a data manager in the caller's transaction: every connection -
    the one that issued the undo and others with the objects already cached - sees the undone state at
    its next boundary; the undo transaction can be undone again."""
    with untraced():
        import transaction
        import ZODB
        import ZODB.DemoStorage
        env = T.Env()
        if storage == 'file':
            s = env.filestorage()
        else:
            s = ZODB.DemoStorage.DemoStorage(base=env.mappingstorage(), changes=env.filestorage())
        db = ZODB.DB(s)
        tm = transaction.TransactionManager()
        c = db.open(tm)
        r = c.root()
        names = ['x', 'y', 'z']
        for nme in names:
            r[nme] = pobj.PObj(v=1)
        tm.commit()
        tids = []
        for k, nme in enumerate(names):
            r[nme].v = 10 + k
            tm.get().note('change ' + nme)
            tm.commit()
            tids.append(s.lastTransaction())
        tm2 = transaction.TransactionManager()
        c2 = db.open(tm2)
        r2 = c2.root()
        cached = dict((nme, r2[nme].v) for nme in names)          # objects loaded (cached) in the other connection
        check(cached == {'x': 10, 'y': 11, 'z': 12}, 'harness: unexpected start state')
    a = choose(i, 3)
    b = choose(j, 3)
    if two:
        assume(a != b)
    else:
        assume(b == 0)
    with untraced():
        import base64
        ids = [base64.encodebytes(tids[a]).rstrip()] + ([base64.encodebytes(tids[b]).rstrip()] if two else [])
        if two:
            db.undoMultiple(ids, tm.get())
        else:
            db.undo(ids[0], tm.get())
        tm.commit()
        undone = set([names[a]] + ([names[b]] if two else []))
        want = dict((nme, 1 if nme in undone else 10 + k) for k, nme in enumerate(names))
        note('undone', ','.join(sorted(undone)))
        got = dict((nme, r[nme].v) for nme in names)
        check(got == want, 'the connection that issued the undo does not see the undone state', got, want)
        tm2.begin()                                          # next boundary of the other connection
        got2 = dict((nme, r2[nme].v) for nme in names)
        check(got2 == want, 'another connection does not see the undo at its next boundary', got2, want)
        tm3 = transaction.TransactionManager()
        c3 = db.open(tm3)
        got3 = dict((nme, c3.root()[nme].v) for nme in names)
        check(got3 == want, 'a fresh connection does not see the undone state', got3, want)
        # an undo is an ordinary transaction: undo it
        db.undo(base64.encodebytes(s.lastTransaction()).rstrip(), tm.get())
        tm.commit()
        tm2.begin()
        back = dict((nme, 10 + k) for k, nme in enumerate(names))
        check(dict((nme, r2[nme].v) for nme in names) == back, 'undo of the undo not seen by the other connection')
        check(dict((nme, r[nme].v) for nme in names) == back, 'undo of the undo not seen by the issuing connection')
        db.close()
    reached()


from zverif.harness.c13 import h_directed_undo_pack as _blob_undo  # noqa: E402

HARNESSES = [
    Harness('undo_tid', h_undo_tid,
            decides='undo(id) for every 8-byte id: succeeds exactly for undoable transactions, writes the pre-transaction '
                    'state (un-creates objects it created, keeps mergeable later changes), else UndoError and no change; '
                    'the undo can itself be undone; all answers survive reopen',
            symbolic='tid (8 free bytes)', bounds='scenarios A/B/C and P (A followed by a pack: packed transactions must be refused); before/after reopen', oracle='model_undo (from the property text) + RevStore battery',
            code=['FileStorage.undo', '_txn_find', '_txn_undo_write', '_transactionalUndoRecord', '_undoDataInfo',
                  'tryToResolveConflict (undo path)'],
            quick=dict(timeout=150, shards=shards(which=['A', 'B', 'C', 'P'], reopen=[False]) + shards(which=['A'], reopen=[True])),
            thorough=dict(timeout=600, shards=shards(which=['A', 'B', 'C', 'P'], reopen=[False, True]))),
    Harness('db_undo', h_db_undo,
            decides='DB.undo / undoMultiple: the issuing connection, a connection with the objects cached, and a fresh one all see the '
                    'undone state at their next boundary; the undo can be undone',
            symbolic='selectors of the transaction(s) to undo (single, or an ordered pair in one call)', bounds='3 objects, 3 undoable transactions',
            oracle='value model', code=['DB.undo/undoMultiple', 'TransactionalUndo', 'UndoAdapterInstance.undo/tpc_finish', 'MVCCAdapter._invalidate_finish'],
            quick=dict(timeout=100, shards=shards(two=[False, True], storage=['file', 'demo'])),
            thorough=dict(timeout=300, shards=shards(two=[False, True], storage=['file', 'demo']))),
    Harness('multi_undo', h_multi_undo,
            decides='two transactions undone in one transaction, in any order: result = sequential application, or UndoError and no change; the undo transaction can be undone in turn',
            symbolic='two selectors over the transactions of the history', bounds='scenarios A, B (6 transactions: all 30 ordered pairs) and D (one resolvable object changed 4 times: 12 ordered pairs)',
            oracle='model_undo applied sequentially', code=['FileStorage.undo (tindex path)', '_transactionalUndoRecord'],
            quick=dict(timeout=120, shards=shards(which=['A', 'B', 'D'])),
            thorough=dict(timeout=300, shards=shards(which=['A', 'B', 'D']))),
    Harness('blob_undo', _blob_undo,
            decides='undo of blob transactions: the blob reads the previous bytes again (also after undo of the undo), an undo of an older '
                    'blob write is refused if the blob was written again later, a failing undo changes nothing (C13 directed_undo_pack)',
            symbolic='3 booleans (undo / further write / second undo), second-blob selector, final step selector', bounds='programs of 5-10 steps; real scratch directory',
            oracle='blob revision model', code=['FileStorage._txn_undo_write (blob copy)', '_transactionalUndoRecord', 'BlobStorage.undo'],
            quick=dict(timeout=400, shards=shards(kind=['file', 'proxy'])), thorough=dict(timeout=700, shards=shards(kind=['file', 'proxy']))),
]

MANIFEST = dict(
    text='Bounded symbolic execution of the real FileStorage.undo with the transaction id as 8 free bytes: the solver '
         'covers every id (each transaction of the history and everything in between), and the outcome - new revisions, '
         'merged states, UndoError with nothing changed, undo of the undo, reopen - is compared with a model of undo written '
         'from the property text through every revision query; pairs of undos in one transaction are explored by selector.',
    note='scenario histories (<= 8 transactions; equal / mergeable / conflicting later changes; prior undo records); object '
         'states concrete; base64 decoding of the id bypassed for symbolic ids; DB.undo with visibility to other connections by selector (db_undo).',
    design_ref='DESIGN.md section 4, C06',
)
