"""C06 - undo restores the pre-transaction state or changes nothing.

H-ARG: the id of the transaction to undo is 8 FREE BYTES (the base64 transport encoding of
the undo id is bypassed by a marker so the id stays symbolic): for every id the real
FileStorage.undo must behave as the model says - succeed exactly for the undoable
transactions of the history, writing for each object the state before that transaction (or
the class's merge with later changes), and otherwise raise UndoError leaving every answer
unchanged.  Scenario (intervening change absent / equal / mergeable / conflicting), a second
undo in the same transaction, undo of the undo, and reopen are shards/selectors.
"""
import base64
import sys

import ZODB.FileStorage  # noqa: F401

from zverif import battery as B
from zverif import pobj
from zverif import templates as T
from zverif.api import assume, check, fail, reached, untraced, choose, realize, note
from zverif.model.revstore import MRec, MTxn, RevStore
from zverif.spec import Harness, shards
from zverif.symenv import codec

codec.install()
F = sys.modules['ZODB.FileStorage.FileStorage']
RAW = b'RAW:'

ASSUMPTIONS = [
    'the undo id is passed as a marker + 8 symbolic bytes; FileStorage\'s base64 decoding of the id is bypassed for '
    'marked ids (transport encoding, not undo logic); unmarked ids go through the real decoder',
    'object states are concrete representatives: a resolvable counter (zverif.pobj.PCounter), opaque byte strings',
    'scenarios A (later changes: equal bytes, mergeable), B (a conflicting later change), C (T4: undo records and '
    'un-creation already in the history); <= 8 transactions, 4 objects',
]

_real_decode = F.decodebytes


def _decode(b):
    if b[:4] == RAW:
        return b[4:12]
    return _real_decode(b)


def scenario(h, which):
    c = pobj.counter_record
    h.commit([(T.oid(1), c(1, 'a')), (T.oid(2), b'b1'), (T.oid(3), b'c1')], b'u1', b't1 creates 1,2,3')
    h.commit([(T.oid(1), c(2, 'b')), (T.oid(2), b'b2')], b'u2', b't2 changes 1,2')
    if which == 'A':
        h.commit([(T.oid(2), b'b2')], desc=b't3 rewrites 2 with equal bytes')
    else:
        h.commit([(T.oid(2), b'b3-different')], desc=b't3 conflicting change of 2')
    h.commit([(T.oid(1), c(5, 'c'))], desc=b't4 mergeable change of 1')
    h.commit([(T.oid(4), b'd1')], desc=b't5 creates 4')
    h.commit([(T.oid(3), b'c2')], desc=b't6 changes 3')


class UndoRefused(Exception):
    pass


def _st(x):
    """state dict of a record (bytes) or of an in-transaction merge result ('state', dict)"""
    if isinstance(x, tuple):
        return x[1]
    return pobj.state_of(x)


def _same(a, b):
    if isinstance(a, tuple) or isinstance(b, tuple):
        try:
            return _st(a) == _st(b)
        except Exception:
            return False
    return a == b


def model_undo(m, work, tid):
    """Model of undoing transaction `tid` on top of `work` (oid -> in-transaction state, for multi-undo).
    Returns list of MRec or raises UndoRefused.  Written from the property text."""
    target = m.txn(tid)
    if target is None or target.status != ' ':
        raise UndoRefused('no such undoable transaction')
    recs = []
    for r in target.written():
        o = r.oid
        xs = r.data                                 # state the undone transaction wrote
        pre = m.state_before(o, tid)                # state immediately before it
        pre_tid = None
        for t2, _ in m.revs(o):
            if t2 < tid:
                pre_tid = t2
        if o in work:
            cur, cur_is_x = work[o], False
        else:
            revs = m.revs(o)
            cur, cur_is_x = revs[-1][1].data, revs[-1][0] == tid
        if cur_is_x or _same(cur, xs):
            # no later change, or a later change that is equal in effect: plain restore of the previous state
            recs.append(MRec(o, pre, 0, pre_tid if pre is not None else None))
            work[o] = pre
            continue
        if pre is None:
            raise UndoRefused('created by the undone transaction and changed later')
        merged = None
        try:
            xs_s, cur_s, pre_s = _st(xs), _st(cur), _st(pre)
            if isinstance(xs_s, dict) and 'n' in xs_s:
                merged = dict(pre_s, n=cur_s['n'] + pre_s['n'] - xs_s['n'],
                              tag='merge(%s|%s|%s)' % (xs_s['tag'], cur_s['tag'], pre_s['tag']))
        except Exception:
            merged = None
        if merged is None:
            raise UndoRefused('later change neither equal nor mergeable')
        recs.append(('merged', o, merged))
        work[o] = ('state', merged)
    return recs


def _apply(s, h, ids, user=b'undoer', desc=b'undo'):
    """Run undo(ids...) as one transaction through the real API; returns tid or raises UndoError."""
    t = T.meta(user, desc)
    s.tpc_begin(t)
    try:
        for i in ids:
            s.undo(i, t)
        s.tpc_vote(t)
    except BaseException:
        s.tpc_abort(t)
        raise
    return s.tpc_finish(t)


def _check_outcome(s, h, m, ids_concrete, got_tid, got_err):
    """Compare with the model and extend it."""
    from ZODB.utils import load_current
    work = {}
    try:
        recs = []
        for tid in ids_concrete:
            # every undo appends its records; a later record of the same oid supersedes the earlier one
            recs.extend(model_undo(m, work, tid))
        want_ok = True
    except UndoRefused as e:
        want_ok = False
        why = str(e)
    if not want_ok:
        check(got_err is not None, 'undo succeeded where the model refuses', why, [t.hex() for t in ids_concrete])
        B.full_battery(s, m)            # nothing changed
        return m
    check(got_err is None, 'undo refused where every later change is equal or mergeable', repr(got_err)[:300])
    # the records the undo transaction actually wrote, in file order
    it = s.iterator(got_tid, got_tid)
    try:
        actual = [(r.oid, r.data) for t_ in it for r in t_]
    finally:
        it.close()
    check(len(actual) == len(recs), 'undo transaction wrote a different number of records than objects undone',
          len(actual), len(recs))
    mrecs = []
    for r, (aoid, adata) in zip(recs, actual):
        if isinstance(r, MRec):
            mrecs.append(r)
        else:
            _, o, merged = r
            check(aoid == o, 'undo record order differs')
            check(adata is not None and pobj.state_of(adata) == merged,
                  'merged state differs from resolver(undone, current, previous)',
                  adata and pobj.state_of(adata), merged)
            mrecs.append(MRec(o, adata))
    m2 = m.copy()
    # record order in the file follows the order of records in the undone transaction(s)
    m2.add(MTxn(got_tid, mrecs, b'undoer', b'undo', kind='undo'))
    B.full_battery(s, m2, data_txn=False)
    B.q_iterator(s, m2, data_txn=False)
    return m2


def h_undo_tid(tid: bytes, which: str, reopen: bool) -> None:
    """undo(id) for an arbitrary 8-byte id."""
    assume(len(tid) == 8)
    with untraced():
        from ZODB.POSException import UndoError
        env = T.Env()
        s = env.filestorage()
        h = T.Hist(s)
        if which == 'C':
            T.T4(h)
        else:
            scenario(h, which)
        if reopen:
            s.close()
            s = env.filestorage()
        F.decodebytes = _decode
        pobj.PCounter.calls = []
        pobj.PCounter.mode = 'value'
    got_tid = got_err = None
    t = T.meta(b'undoer', b'undo')
    s.tpc_begin(t)
    try:
        try:
            s.undo(RAW + tid, t)            # traced: _txn_find compares the symbolic id with each header
            with untraced():
                s.tpc_vote(t)
                got_tid = s.tpc_finish(t)
        except UndoError as e:
            got_err = e
            with untraced():
                s.tpc_abort(t)
    finally:
        F.decodebytes = _real_decode
    # which transaction (if any) does the id name?  decided symbolically, so that the "no such
    # transaction" region is ONE path, not an enumeration of ids
    match = None
    for k_, t_ in enumerate(h.m.txns):
        if tid == t_.tid:
            match = k_
    with untraced():
        ctid = h.m.txns[match].tid if match is not None else b'\xde\xad\xbe\xef\0\0\0\0'
        m2 = _check_outcome(s, h, h.m, [ctid], got_tid, got_err)
        if got_tid is not None:
            # an undo is an ordinary transaction: undoing it restores the undone state
            note('undone', [t_.tid for t_ in h.m.txns].index(ctid))
            try:
                t2 = _apply(s, h, [base64.encodebytes(got_tid).rstrip()], b'undoer', b'undo')
                err2 = None
            except UndoError as e:
                t2, err2 = None, e
            m3 = _check_outcome(s, h, m2, [got_tid], t2, err2)
            check(err2 is None, 'the undo transaction itself could not be undone', repr(err2)[:200])
            s.close()
            s3 = env.filestorage()
            B.full_battery(s3, m3, data_txn=False)
            s3.close()
        else:
            note('refused')
    reached()


def h_multi_undo(i: int, j: int, which: str) -> None:
    """Two transactions undone in one transaction, in either order (selectors over the history)."""
    with untraced():
        from ZODB.POSException import UndoError
        env = T.Env()
        s = env.filestorage()
        h = T.Hist(s)
        scenario(h, which)
        n = len(h.m.txns)
        pobj.PCounter.calls = []
        pobj.PCounter.mode = 'value'
    a = choose(i, n)
    b = choose(j, n)
    assume(a != b)
    with untraced():
        ids = [h.m.txns[a].tid, h.m.txns[b].tid]
        try:
            got = _apply(s, h, [base64.encodebytes(x).rstrip() for x in ids])
            err = None
        except UndoError as e:
            got, err = None, e
        note('pair', '%d,%d:%s' % (a, b, 'ok' if got else 'refused'))
        _check_outcome(s, h, h.m, ids, got, err)
    reached()


HARNESSES = [
    Harness('undo_tid', h_undo_tid,
            decides='undo(id) for every 8-byte id: succeeds exactly for undoable transactions, writes the pre-transaction '
                    'state (un-creates objects it created, keeps mergeable later changes), else UndoError and no change; '
                    'the undo can itself be undone; all answers survive reopen',
            symbolic='tid (8 free bytes)', bounds='scenarios A/B/C; before/after reopen', oracle='model_undo (from the property text) + RevStore battery',
            code=['FileStorage.undo', '_txn_find', '_txn_undo_write', '_transactionalUndoRecord', '_undoDataInfo',
                  'tryToResolveConflict (undo path)'],
            quick=dict(timeout=150, shards=shards(which=['A', 'B', 'C'], reopen=[False]) + shards(which=['A'], reopen=[True])),
            thorough=dict(timeout=600, shards=shards(which=['A', 'B', 'C'], reopen=[False, True]))),
    Harness('multi_undo', h_multi_undo,
            decides='two transactions undone in one transaction, in any order: result = sequential application, or UndoError and no change',
            symbolic='two selectors over the transactions of the history', bounds='scenarios A, B (6 transactions): all 30 ordered pairs',
            oracle='model_undo applied sequentially', code=['FileStorage.undo (tindex path)', '_transactionalUndoRecord'],
            quick=dict(timeout=120, shards=shards(which=['A', 'B'])),
            thorough=dict(timeout=300, shards=shards(which=['A', 'B']))),
]

MANIFEST = dict(
    text='Bounded symbolic execution of the real FileStorage.undo with the transaction id as 8 free bytes: the solver '
         'covers every id (each transaction of the history and everything in between), and the outcome - new revisions, '
         'merged states, UndoError with nothing changed, undo of the undo, reopen - is compared with a model of undo written '
         'from the property text through every revision query; pairs of undos in one transaction are explored by selector.',
    note='scenario histories (<= 8 transactions; equal / mergeable / conflicting later changes; prior undo records); object '
         'states concrete; base64 decoding of the id bypassed for symbolic ids; DB.undo / visibility to other connections is '
         'exercised in C02/C11 machinery only as far as built (see DESIGN.md).',
    design_ref='DESIGN.md section 4, C06',
)
