"""C19 - the oid index (ZODB.fsIndex) behaves as an ordered map and survives save/load.

Fully symbolic: keys are free 8-byte strings, values free ints < 2**48, the operation
sequence is a list of symbolic op-codes.  The real fsIndex code (and the pure-Python
BTrees it sits on) is executed by CrossHair; the oracle is a plain dict kept sorted.
"""
from typing import List

from zverif.api import assume, check, fail, reached, untraced, note
from zverif.spec import Harness, shards
from zverif.symenv import codec, vfs

codec.install()

import ZODB.fsIndex as FI  # noqa: E402

ASSUMPTIONS = [
    'pure-Python BTrees (PURE_PYTHON=1) stand in for the C BTrees during symbolic execution; '
    'counterexamples are replayed with the C extension',
    'ZODB.utils.p64/u64 and struct.unpack are routed through the symbolic big-endian codec '
    '(validated against struct on concrete values at start-up)',
    'save/load: the pickle stream is produced and consumed by zodbpickle on an in-memory file (VFS)',
]


SHAPES = {
    # name: (template, free positions).  Positions not free are fixed to the template byte.
    'lo2': (b'\x00' * 8, (5, 7)),        # 00 00 00 00 00 P 00 S : prefix byte + suffix byte free, low corner
    'hi2': (b'\xff' * 8, (5, 7)),        # ff ff ff ff ff P ff S : same at the top corner (prefix ff*6 reachable)
    'lo3': (b'\x00' * 8, (5, 6, 7)),
    'hi3': (b'\xff' * 8, (5, 6, 7)),
    'full': (b'\x00' * 8, tuple(range(8))),
}


def _shape(k, shape):
    """Constrain a symbolic key to a shape: listed positions are free bytes, the rest fixed."""
    assume(len(k) == 8)
    tmpl, free = SHAPES[shape]
    if len(free) == 8:
        return
    lo = min(free)
    assume(k[:lo] == tmpl[:lo])
    for i in range(lo, 8):
        if i not in free:
            assume(k[i] == tmpl[i])


class SortedModel:
    """Reference ordered map: an association list kept sorted by key.  No hashing, so that
    symbolic keys stay symbolic (a dict would concretise them)."""

    def __init__(self):
        self.kv = []

    def __len__(self):
        return len(self.kv)

    def find(self, k):
        for i, (k2, _) in enumerate(self.kv):
            if k2 == k:
                return i
        return -1

    def __contains__(self, k):
        return self.find(k) >= 0

    def get(self, k, default=None):
        i = self.find(k)
        return default if i < 0 else self.kv[i][1]

    def __getitem__(self, k):
        return self.kv[self.find(k)][1]

    def __setitem__(self, k, v):
        i = self.find(k)
        if i >= 0:
            self.kv[i] = (k, v)
            return
        j = 0
        while j < len(self.kv) and self.kv[j][0] < k:
            j += 1
        self.kv.insert(j, (k, v))

    def __delitem__(self, k):
        del self.kv[self.find(k)]

    def clear(self):
        self.kv = []

    def keys(self):
        return [k for k, _ in self.kv]

    def items(self):
        return list(self.kv)

    def min_ge(self, q):
        for k, _ in self.kv:
            if k >= q:
                return k
        return None

    def max_le(self, q):
        r = None
        for k, _ in self.kv:
            if k <= q:
                r = k
        return r


class _Items:
    """Mapping stand-in for fsIndex.update(): only .items() is used."""

    def __init__(self, pairs):
        self._pairs = pairs

    def items(self):
        return list(self._pairs)


def _query_battery(ix, model, q):
    keys = model.keys()
    check(len(ix) == len(model), 'len differs', len(ix), len(model))
    check(list(ix.keys()) == keys, 'iteration order differs from sorted dict', list(ix.keys()), keys)
    check(list(ix.items()) == model.items(), 'items differ')
    check(list(ix.values()) == [v for _, v in model.items()], 'values differ')
    for k, v in model.items():
        check(k in ix, 'member missing', k)
        check(ix[k] == v, 'lookup differs', k)
        check(ix.get(k) == v, 'get differs', k)
    present = q in model
    check((q in ix) == present, 'membership of query key differs', q)
    check(ix.get(q) == model.get(q), 'get(query) differs', q)
    check(ix.has_key(q) == present, 'has_key differs', q)
    if not present:
        try:
            ix[q]
            fail('lookup of absent key did not raise', q)
        except KeyError:
            pass
    # smallest / largest
    if keys:
        check(ix.minKey() == keys[0], 'minKey() differs')
        check(ix.maxKey() == keys[-1], 'maxKey() differs')
    else:
        for f in (ix.minKey, ix.maxKey):
            try:
                f()
                fail('min/max of empty index did not raise')
            except ValueError:
                pass
    # smallest key not below q / largest key not above q
    want = model.min_ge(q)
    try:
        got = ix.minKey(q)
    except ValueError:
        got = None
    check(got == want, 'minKey(q) differs from sorted dict', q, got, want, keys)
    want = model.max_le(q)
    try:
        got = ix.maxKey(q)
    except Exception:        # property: agreement with a sorted mapping; any refusal = "no such key"
        got = None
    check(got == want, 'maxKey(q) differs from sorted dict', q, got, want, keys)


def h_bounded_keys(k1: bytes, k2: bytes, k3: bytes, q: bytes, shape: str, nkeys: int) -> None:
    """insert nkeys keys (arbitrary, possibly equal), then every query against key q."""
    ks = [k1, k2, k3][:nkeys]
    for k in ks:
        _shape(k, shape)
    _shape(q, shape)
    ix = FI.fsIndex()
    model = SortedModel()
    for i, k in enumerate(ks):
        ix[k] = 100 + i
        model[k] = 100 + i
    _query_battery(ix, model, q)
    reached()


def h_ops(ops: List[int], k1: bytes, k2: bytes, k3: bytes, q: bytes, shape: str, nops: int) -> None:
    """A symbolic program of insert / update / delete / clear over three symbolic keys."""
    assume(len(ops) == nops)
    v = 1000
    ks = [k1, k2, k3]
    for k in ks:
        _shape(k, shape)
    _shape(q, shape)
    ix = FI.fsIndex()
    model = SortedModel()
    for n in range(nops):
        op = ops[n]
        assume(0 <= op < 8)
        k = ks[op % 3] if op < 6 else None
        if op < 3:                       # insert / update with a fresh value
            val = v + n
            ix[k] = val
            model[k] = val
        elif op < 6:                     # delete
            if k in model:
                del ix[k]
                del model[k]
            else:
                try:
                    del ix[k]
                    fail('delete of absent key did not raise', k)
                except KeyError:
                    pass
        elif op == 6:
            ix.clear()
            model.clear()
        else:                            # update() from a mapping
            ix.update(_Items([(k1, v), (k3, v + 1)]))
            model[k1] = v
            model[k3] = v + 1
    _query_battery(ix, model, q)
    reached()


def h_step(k1: bytes, k2: bytes, q: bytes, shape: str, op: str) -> None:
    """One operation from an arbitrary index state (built from two arbitrary keys), then every query."""
    _shape(k1, shape)
    _shape(k2, shape)
    _shape(q, shape)
    ix = FI.fsIndex()
    model = SortedModel()
    for i, k in enumerate((k1, k2)):
        ix[k] = 100 + i
        model[k] = 100 + i
    if op in ('del1', 'del2', 'reinsert'):
        k = k2 if op == 'del2' else k1
        if k in model:          # k2 may equal k1
            del ix[k]
            del model[k]
        if op == 'reinsert':
            ix[k] = 7
            model[k] = 7
    elif op == 'del_absent':
        if q not in model:
            try:
                del ix[q]
                fail('delete of absent key did not raise', q)
            except KeyError:
                pass
    elif op == 'clear':
        ix.clear()
        model.clear()
    elif op == 'update':
        ix.update(_Items([(k2, 5), (q, 6)]))
        model[k2] = 5
        model[q] = 6
    elif op == 'init':
        ix = FI.fsIndex(_Items(model.items()))
    _query_battery(ix, model, q)
    reached()


POSITIONS = [0, 1, 4, 255, 256, 2 ** 31, 2 ** 48 - 1, 2 ** 63 - 1]
VALUES = [0, 1, 255, 256, 65535, 65536, 2 ** 47, 2 ** 48 - 1]


def h_saveload(k1: bytes, k2: bytes, sel: int, shape: str) -> None:
    """save(pos, file) followed by load(file) gives an equal index and position."""
    _shape(k1, shape)
    _shape(k2, shape)
    v1 = VALUES[sel]
    v2 = VALUES[7 - sel]
    pos = POSITIONS[sel]
    fs = vfs.VFS(pure=True)
    vfs.install(fs)
    ix = FI.fsIndex()
    model = SortedModel()
    ix[k1] = v1
    ix[k2] = v2
    model[k1] = v1
    model[k2] = v2
    ix.save(pos, '/Data.fs.index')
    info = FI.fsIndex.load('/Data.fs.index')
    check(info['pos'] == pos, 'position changed by save/load', info['pos'], pos)
    ix2 = info['index']
    check(list(ix2.items()) == model.items(), 'index changed by save/load')
    check(ix2.minKey() == model.keys()[0] and ix2.maxKey() == model.keys()[-1], 'min/max changed by save/load')
    # every other answer of the ordered-map interface as well
    n = len(model.keys())
    check(len(ix2) == n, 'length changed by save/load', len(ix2), n)
    check(bool(ix2) == (n > 0), 'truth value changed by save/load')
    check(list(ix2.keys()) == model.keys() and k1 in ix2 and ix2.get(k2) == model[k2] and ix2[k1] == model[k1], 'lookups changed by save/load')
    ix3 = FI.fsIndex(ix2)
    check(list(ix3.items()) == model.items() and len(ix3) == n, 'an index constructed from a loaded index differs')
    del ix2[k1]
    check(len(ix2) == n - 1 and k1 not in ix2, 'delete after save/load wrong', len(ix2))
    ix2[k1] = model[k1]
    check(len(ix2) == n and list(ix2.items()) == model.items(), 're-insert after save/load wrong', len(ix2))
    reached()


STEP_OPS = ['del1', 'del2', 'reinsert', 'del_absent', 'clear', 'update', 'init']

HARNESSES = [
    Harness(
        'bounded_keys', h_bounded_keys,
        decides='lookups, membership, length, order, min/max and bounded min/max queries after inserting up to 3 keys',
        symbolic='up to 3 keys and the query key as symbolic byte strings of length 8; a shard fixes a key SHAPE: '
                 'lo2/hi2 = bytes 5 (last prefix byte) and 7 (last suffix byte) free, others 00 / ff; lo3/hi3 = bytes '
                 '5,6,7 free; full = all 8 bytes free',
        bounds='<= 3 keys; shapes lo2, hi2 exhausted in the quick tier; full shapes are bounded search (not exhaustive)',
        oracle='sorted association list; "no such key" = ValueError for minKey, any exception for maxKey',
        code=['fsIndex.__setitem__', '__getitem__', 'get', '__contains__', 'has_key', '__len__', 'keys/items/values',
              'minKey', 'maxKey', 'prefix_plus_one', 'prefix_minus_one'],
        pure_python=True,
        quick=dict(timeout=150, shards=shards(shape=['lo2', 'hi2'], nkeys=[1, 2]) + shards(shape=['full'], nkeys=[2, 3])),
        thorough=dict(timeout=1500, shards=shards(shape=['lo2', 'hi2', 'lo3', 'hi3', 'full'], nkeys=[1, 2, 3])),
    ),
    Harness(
        'step', h_step,
        decides='one delete / re-insert / clear / update() / construction-from-mapping step from an arbitrary '
                'two-key index state, followed by every query (inductive step over operation histories)',
        symbolic='2 keys of the pre-state and the query/operand key (shapes as above); the operation is a shard',
        bounds='pre-states with <= 2 keys; shapes lo2, hi2',
        oracle='sorted association list',
        code=['fsIndex.__delitem__', 'clear', 'update', '__init__', 'minKey', 'maxKey'],
        pure_python=True,
        quick=dict(timeout=150, shards=shards(shape=['lo2'], op=STEP_OPS) + shards(shape=['hi2'], op=['del1', 'update'])),
        thorough=dict(timeout=1500, shards=shards(shape=['lo2', 'hi2', 'lo3', 'full'], op=STEP_OPS)),
    ),
    Harness(
        'ops', h_ops,
        decides='agreement with a sorted dict after any program of insert/update/delete/clear/update()',
        symbolic='op-codes (list of ints), 3 keys, query key (values are concrete and distinct per step)',
        bounds='programs of exactly nops operations over 3 keys; bounded search (path budget), not exhaustive',
        oracle='sorted association list',
        code=['fsIndex.__setitem__', '__delitem__', 'clear', 'update', 'minKey', 'maxKey'],
        pure_python=True,
        quick=dict(timeout=100, shards=shards(shape=['lo2'], nops=[3])),
        thorough=dict(timeout=1500, shards=shards(shape=['lo2', 'hi2', 'full'], nops=[2, 3, 4, 5])),
    ),
    Harness(
        'saveload', h_saveload,
        decides='save(pos, f); load(f) returns an equal index and the same position',
        symbolic='2 keys (shape); shard `sel` picks one of 8 (position, value, value) triples at encoding boundaries',
        bounds='2 keys; positions in %r; values in %r' % (POSITIONS, VALUES), oracle='sorted association list',
        code=['fsIndex.save', 'fsIndex.load', 'num2str', 'str2num'],
        pure_python=True,
        quick=dict(timeout=150, shards=shards(shape=['lo2'], sel=[0, 2, 5, 7])),
        thorough=dict(timeout=900, shards=shards(shape=['lo2', 'hi2', 'full'], sel=list(range(8)))),
    ),
]

MANIFEST = dict(
    text='Bounded symbolic execution of the real fsIndex code: keys, query key and operations are symbolic; for the '
         'two-free-byte key shapes at both corners of the key space every path is explored (z3 certifies exhaustion), '
         'so agreement with a sorted map holds for all such keys; unrestricted 8-byte keys and longer programs are a '
         'bounded (non-exhaustive) solver-driven search.  This is the right level because the defect class here '
         '(prefix-boundary arithmetic) lives in rare key relations that a solver finds and sampling does not.',
    note='pure-Python BTrees stand in for the C BTrees during symbolic execution (counterexamples replayed with the C '
         'extension); <= 3 keys; shapes and program lengths as listed in the evidence; pickle engine trusted.',
    design_ref='DESIGN.md section 4, C19',
)
