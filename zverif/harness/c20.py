"""C20 - object ids are never issued twice or for an object that already exists.

H-ARG: the allocation counter state (8 free bytes, reaching the carry path), the ids of
stored / restored records (free bytes) and DemoStorage's random draws (symbolic ints in a
window around every id present) are solver variables.  H-SCHED: a second allocator is
injected at a symbolic point of the first one's new_oid(), with yield points at lock
operations AND at every source line of the new_oid functions (line-level preemption).
"""
import sys

import ZODB.BaseStorage
import ZODB.DemoStorage
import ZODB.FileStorage  # noqa: F401
import ZODB.MappingStorage

from zverif import templates as T
from zverif.api import assume, check, fail, reached, untraced, choose, realize, note
from zverif.spec import Harness, shards
from zverif.symenv import codec, locks

codec.install()

ASSUMPTIONS = [
    'allocation counter below 2**64 - 8 (ids at the very top of the 64-bit space are outside the claim)',
    'DemoStorage: random.randint is replaced by a script of symbolic draws, each within +-6 of an id present in either '
    'layer or already issued (a draw outside that window cannot collide by construction)',
    'concurrent allocators: one whole new_oid() of a second logical thread injected at a symbolic yield point of the first '
    '(lock operations and every source line of the new_oid functions); more than two allocators mid-call are outside',
    'pure-Python BTrees during symbolic execution',
]


from zverif.symenv.containers import AssocDict  # noqa: E402


def _fs_class():
    F = sys.modules['ZODB.FileStorage.FileStorage']
    from ZODB.fsIndex import fsIndex

    class FS(F.FileStorage):
        def _newIndexes(self):
            return fsIndex(), AssocDict()
    return FS


def _storage(kind, env):
    if kind == 'file':
        if env.fs.pure:
            return _fs_class()('/db/Data.fs')
        return env.filestorage()
    if kind == 'mapping':
        return env.mappingstorage()
    raise ValueError(kind)


def h_counter(counter: bytes, storage: str) -> None:
    """From an arbitrary counter state, k allocations are strictly increasing and above the counter."""
    assume(len(counter) == 8)
    assume(counter < b'\xff\xff\xff\xff\xff\xff\xff\xf0')
    with untraced():
        env = T.Env()
        s = _storage(storage, env)
    if storage == 'mapping':
        # MappingStorage keeps an int counter: boundary values selected by the solver from a list
        vals = [0, 254, 255, 256, 65534, 65535, 2 ** 32 - 1, 2 ** 56 - 1, 2 ** 63 - 1, 2 ** 63]
        k = 0
        for i, v in enumerate(vals):
            if counter == v.to_bytes(8, 'big'):
                k = i
                break
        else:
            assume(False)
        counter = vals[k].to_bytes(8, 'big')
        s._oid = vals[k]
    else:
        s._oid = counter
    prev = counter
    for i in range(3):
        o = s.new_oid()
        check(len(o) == 8, 'new_oid is not 8 bytes', o)
        check(o > prev, 'new_oid not above the previous id / counter', prev, o)
        prev = o
    reached()


OID_SELECT = [3, 254, 255, 256, 0xffff, 0x10000, 2 ** 32 - 1, 2 ** 32, 2 ** 48 + 5, 2 ** 56 - 1, 2 ** 63 + 1]


def h_stored_oid(o: bytes, sel: int, sel2: int, storage: str, via: str, reopen: bool, oshape: str, mid: bool = False, pack: bool = False) -> None:
    """A record stored / restored with an arbitrary id raises the counter: no later new_oid returns it
    (or any id already present), also after close and reopen.
    oshape 'free': the id is 8 free bytes; 'select': a solver-chosen element of OID_SELECT (used where
    the id has to pass through code that hashes or re-parses it, which would enumerate values).
    mid: another client draws an id while the copying transaction is still in flight (after its store).
    pack: the storage is packed (really rewritten) between two of the later allocations."""
    extra = None
    assume(not (pack and (reopen or oshape != 'select' or storage != 'file')))
    if oshape == 'select':
        assume(len(o) == 0)
        o = OID_SELECT[choose(sel, len(OID_SELECT))].to_bytes(8, 'big')
        # a further object that exists beforehand, also at a boundary id (pairs such as 0xffff / 0x10000 lie in
        # different buckets of the two-level index)
        k2 = choose(sel2, len(OID_SELECT) + 1)
        if k2 < len(OID_SELECT):
            extra = OID_SELECT[k2].to_bytes(8, 'big')
            assume(extra != o)
    else:
        assume(sel == 0 and sel2 == 0)
    assume(len(o) == 8)
    assume(b'\0' * 8 < o < b'\xff\xff\xff\xff\xff\xff\xff\xf0')
    with untraced():
        env = T.Env(pure=True)             # pure-Python files: symbolic oid bytes can be written
        s = _storage(storage, env)
        h = T.Hist(s)
        h.commit([(T.oid(1), b'a'), (T.oid(2), b'b')] + ([(extra, b'x')] if extra is not None else []))
        if pack:
            h.commit([(T.oid(1), b'a-again')])      # something for the pack to remove
        first = s.new_oid()                # allocation before the foreign record arrives
    t = T.meta(b'copy')
    tid = None
    if via == 'restore':
        tid = b'\x7f' + b'\0' * 7
        s.tpc_begin(t, tid)
        s.restore(o, tid, b'copied-in', '', None, t)
    else:
        s.tpc_begin(t)
        serial = h.serial.get(realize(o), T.Z64) if False else T.Z64
        # store of a new object under a caller-chosen id (what copyTransactionsFrom does without restore())
        assume(o != T.oid(1) and o != T.oid(2))
        s.store(o, serial, b'copied-in', '', t)
    drawn = []
    if mid:
        n_mid = s.new_oid()
        check(n_mid != o, 'new_oid returned the id of a record that a transaction in flight has stored', o, n_mid)
        check(n_mid != first, 'new_oid returned an id already issued', n_mid)
        drawn.append(n_mid)
    s.tpc_vote(t)
    s.tpc_finish(t)
    if reopen:
        s.close()
        s = _storage('file', env)
    present = [T.oid(1), T.oid(2), o] + ([extra] if extra is not None else [])
    issued = [] if reopen else [first] + drawn
    for i in range(3):
        if pack and i == 1:
            with untraced():
                size0 = len(env.fs.content('/db/Data.fs'))
                s.pack(env.clock.time(), lambda p: [], gc=False)
                check(len(env.fs.content('/db/Data.fs')) < size0, 'harness: the pack did not rewrite the file')
        n = s.new_oid()
        check(n != o, 'new_oid returned the id of a record that was copied in', o, n)
        check(n not in present and n not in issued, 'new_oid returned an id that is present or already issued', n)
        issued.append(n)
    reached()


class _Draws:
    """random stand-in for ZODB.DemoStorage: randint returns the scripted (symbolic) draws."""

    def __init__(self, draws):
        self.draws = list(draws)
        self.used = 0

    def randint(self, a, b):
        if not self.draws:
            raise _OutOfDraws()
        self.used += 1
        return self.draws.pop(0)


class _OutOfDraws(Exception):
    pass


def h_demo(d1: int, d2: int, d3: int, nalloc: int, commit_at: int, abort_at: int = -1, inflight: int = -1, f: int = 0) -> None:
    """DemoStorage.new_oid with symbolic random draws never returns an id present in base, in changes,
    or issued before.  inflight >= 0: before allocation number `inflight` another client's transaction stores a
    record under the foreign (symbolic) id f and stays in flight; it finishes after the allocations - f then
    identifies a present object and must not have been handed out in between."""
    with untraced():
        env = T.Env()
        base = env.mappingstorage()
        hb = T.Hist(base)
        hb.commit([(T.oid(70), b'base-70'), (T.oid(71), b'base-71')])
        import ZODB.DemoStorage as DM
        real_random = DM.random
        DM.random = _Draws([74])
        s = DM.DemoStorage(base=base)          # _next_oid := first draw (74)
        h = T.Hist(s, hb.m.copy())
        h.serial = dict(hb.serial)
        h.commit([(T.oid(75), b'changes-75')])
        present = [T.oid(70), T.oid(71), T.oid(75)]
    for d in (d1, d2, d3):
        assume((72 <= d <= 78) if inflight >= 0 else (64 <= d <= 82))
    try:
        DM.random = _Draws([d1, d2, d3])
        issued = []
        t_f = None
        try:
            for i in range(nalloc):
                if i == inflight:
                    assume(72 <= f <= 78)
                    with untraced():
                        f0 = T.oid(realize(f))
                    assume(f0 not in present and f0 not in issued)
                    t_f = T.meta(b'u', b'copied in under a foreign id')
                    s.tpc_begin(t_f)
                    s.store(f0, T.Z64, b'foreign', '', t_f)
                n = s.new_oid()
                if t_f is not None:
                    check(n != f0, 'demo storage issued the id of a record that a transaction in flight has stored', n)
                check(n not in present, 'demo storage issued an id that exists in a layer', n)
                check(n not in issued, 'demo storage issued the same id twice', n)
                issued.append(n)
                if i == abort_at:
                    # this id is stored in a transaction that is then aborted: the object never comes to exist, but the id
                    # was handed out - it stays issued
                    with untraced():
                        n0 = realize(n)
                    t_ = T.meta(b'u', b'aborted')
                    s.tpc_begin(t_)
                    s.store(n0, T.Z64, b'never-committed', '', t_)
                    s.tpc_abort(t_)
                if i == commit_at:
                    # this id gets used by a committed store: it is then "present", no longer "issued"; the ids
                    # issued before it to other clients stay issued
                    with untraced():
                        n0 = realize(n)
                    # traced: the storage's bookkeeping sets may hold other (symbolic) issued ids
                    h.commit([(n0, b'uses-this-id')])
                    present.append(n0)
            if t_f is not None:
                s.tpc_vote(t_f)
                s.tpc_finish(t_f)
                check(ZODB.utils.load_current(s, f0)[0] == b'foreign', 'record stored under the foreign id is not served after its commit')
        except _OutOfDraws:
            assume(False)          # more than 3 redraws needed: outside the bound
    finally:
        DM.random = real_random
    reached()


def _line_funcs():
    return [ZODB.BaseStorage.BaseStorage.new_oid, ZODB.MappingStorage.MappingStorage.new_oid.__wrapped__
            if hasattr(ZODB.MappingStorage.MappingStorage.new_oid, '__wrapped__') else None,
            ZODB.DemoStorage.DemoStorage.new_oid]


def h_concurrent(at: int, storage: str) -> None:
    """A second allocator injected at any lock operation or source line of the first allocator's
    new_oid(): the two ids differ (or the second one has to wait)."""
    assume(at >= 0)
    with untraced():
        env = T.Env()
        sch = locks.install(env.fs)
        try:
            if storage == 'demo':
                import ZODB.DemoStorage as DM
                s = DM.DemoStorage(base=env.mappingstorage())
                s._next_oid = 500
            else:
                s = _storage(storage, env)
            got = {}
            sch.add(at, lambda: got.__setitem__('B', s.new_oid()), tid=1, name='new_oid B')
            funcs = [f for f in _target_codes(s)]
            with locks.line_points(funcs):
                sch.start()
                try:
                    got['A'] = s.new_oid()
                    sch.point('api')
                except locks.Blocked:
                    note('blocked')
                    sch.stop()
                    assume(False)
                sch.stop()
            assume('B' in got)
            check(got['A'] != got['B'], 'two concurrent allocators received the same id', got['A'], sch.trace)
            third = s.new_oid()
            check(third not in (got['A'], got['B']), 'id issued again after concurrent allocation', third)
        finally:
            locks.uninstall()
            env.fs.hook = None
    reached()


def _target_codes(s):
    """Code objects of the new_oid implementation in use (line-level yield points)."""
    out = []
    f = type(s).new_oid
    for cand in (f, getattr(f, '__wrapped__', None), getattr(f, 'func', None), getattr(f, '__func__', None)):
        if cand is not None and hasattr(cand, '__code__'):
            out.append(cand.__code__)
    if not out:
        # ZODB.utils.locked descriptor: the wrapped function is kept on the descriptor
        d = type(s).__dict__.get('new_oid')
        for name in ('func', '__wrapped__'):
            g = getattr(d, name, None)
            if g is not None and hasattr(g, '__code__'):
                out.append(g.__code__)
        pre = getattr(d, 'preconditions', None)
    return out


HARNESSES = [
    Harness('counter', h_counter,
            decides='from any counter state (incl. carries across bytes) successive new_oid() results strictly increase',
            symbolic='counter (8 free bytes)', bounds='3 consecutive allocations', oracle='strict increase above the counter',
            code=['BaseStorage.new_oid', 'MappingStorage.new_oid'], pure_python=True,
            quick=dict(timeout=240, shards=shards(storage=['file', 'mapping'])),
            thorough=dict(timeout=600, shards=shards(storage=['file', 'mapping']))),
    Harness('stored_oid', h_stored_oid,
            decides='after a record with an arbitrary id was stored or restored (and after reopen), new_oid never returns '
                    'that id, a present id, or an id issued earlier in the session',
            symbolic='oid of the copied-in record: 8 free bytes (oshape free) or a solver-chosen element of 11 boundary ids (oshape select)', bounds='2 existing objects + 1 copied-in; 3 allocations (+1 while the copying transaction is in flight); optionally a pack between them',
            oracle='set difference', pure_python=True,
            code=['FileStorage.store/restore (set_max_oid)', 'BaseStorage.set_max_oid/new_oid', 'MappingStorage.store/new_oid',
                  'read_index maxoid'],
            quick=dict(timeout=120, shards=[dict(storage='file', via='store', reopen=False, oshape='free'),
                                            dict(storage='file', via='restore', reopen=False, oshape='free'),
                                            dict(storage='file', via='restore', reopen=True, oshape='select'),
                                            dict(storage='file', via='store', reopen=True, oshape='select'),
                                            dict(storage='mapping', via='store', reopen=False, oshape='select'),
                                            dict(storage='mapping', via='store', reopen=False, oshape='free', _timeout=40),
                                            dict(storage='file', via='store', reopen=False, oshape='select', pack=True)]),
            thorough=dict(timeout=600, shards=[dict(storage='file', via='store', reopen=False, oshape='free'),
                                               dict(storage='file', via='restore', reopen=False, oshape='free'),
                                               dict(storage='file', via='restore', reopen=True, oshape='select'),
                                               dict(storage='file', via='store', reopen=True, oshape='select'),
                                               dict(storage='file', via='restore', reopen=True, oshape='free'),
                                               dict(storage='mapping', via='store', reopen=False, oshape='select'),
                                               dict(storage='mapping', via='store', reopen=False, oshape='free'),
                                               dict(storage='file', via='store', reopen=False, oshape='select', pack=True),
                                               dict(storage='file', via='restore', reopen=False, oshape='select', pack=True)])),
    Harness('demo', h_demo,
            decides='DemoStorage.new_oid never returns an id present in base or changes, or issued before, whatever the random draws',
            symbolic='3 random draws (ints in a +-6 window around all ids present/issued)',
            bounds='<= 3 allocations, <= 3 redraws; base {70,71}, changes {75}, first draw 74; with a foreign in-flight id: id and draws in 72..78', oracle='set difference',
            code=['DemoStorage.new_oid', 'DemoStorage.tpc_finish (_issued_oids bookkeeping)'], pure_python=True,
            quick=dict(timeout=150, shards=shards(nalloc=[2], commit_at=[0, -1], abort_at=[-1], inflight=[-1], f=[0]) + shards(nalloc=[3], commit_at=[1], abort_at=[-1], inflight=[-1], f=[0])
                  + shards(nalloc=[2], commit_at=[-1], abort_at=[0], inflight=[-1], f=[0]) + [dict(nalloc=2, commit_at=-1, abort_at=-1, inflight=0), dict(nalloc=2, commit_at=-1, abort_at=-1, inflight=1)]),
            thorough=dict(timeout=900, shards=shards(nalloc=[1, 2, 3], commit_at=[-1, 0, 1], abort_at=[-1], inflight=[-1], f=[0]) + shards(nalloc=[2, 3], commit_at=[-1, 1], abort_at=[0], inflight=[-1], f=[0])
                          + shards(nalloc=[2, 3], commit_at=[-1], abort_at=[-1], inflight=[0, 1]))),
    Harness('concurrent', h_concurrent,
            decides='two allocators interleaved at any lock operation or source line of new_oid() get different ids',
            symbolic='injection point `at` over lock operations and source lines of the new_oid in use',
            bounds='2 allocators, one atomic injection', oracle='ids differ',
            code=['BaseStorage.new_oid', 'MappingStorage.new_oid', 'DemoStorage.new_oid', 'ZODB.utils.locked'],
            quick=dict(timeout=60, shards=shards(storage=['file', 'mapping', 'demo'])),
            thorough=dict(timeout=120, shards=shards(storage=['file', 'mapping', 'demo']))),
]

MANIFEST = dict(
    text='Bounded symbolic execution of the real id allocators: counter state and copied-in record ids are free 8-byte '
         'values (the carry path and the "larger id raises the counter" comparison are decided by the solver), DemoStorage\'s '
         'random draws are symbolic integers, and a second allocator is injected at a solver-chosen lock operation or '
         'source line of new_oid().',
    note='<= 3 allocations; DemoStorage draws confined to a window around the ids present; one injected allocator; ids at the '
         'very top of the 64-bit range excluded; import/savepoint allocation paths go through the same new_oid and are not '
         'separately driven.',
    design_ref='DESIGN.md section 4, C20',
)
