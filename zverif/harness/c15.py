"""C15 - historical connections read exactly the chosen past state and cannot write.

H-ARG: the historical point is 8 FREE BYTES, given as `before=` or as `at=`; DB.open /
getTID / the future check / HistoricalStorageAdapter.load run under CrossHair and every
object's record is compared with the model state at that bound.  Then the bound is
concretised and a real historical Connection is walked (object graph, attribute values,
identity of referenced objects), a commit through it is attempted, and live connections
commit while it is open.  Datetime forms are taken from a symbolic selector over the
history's instants (datetime arithmetic concretised).
"""
import sys

import ZODB.DB
import ZODB.FileStorage  # noqa: F401

from zverif import graph as GR
from zverif import pobj
from zverif import templates as T
from zverif.api import assume, check, fail, reached, untraced, choose, realize, note
from zverif.model.revstore import NoKey
from zverif.spec import Harness, shards
from zverif.symenv import codec

codec.install()
DBM = sys.modules['ZODB.DB']

ASSUMPTIONS = [
    'ZODB.DB.TimeStamp is replaced during the symbolic part by the ordering contract of persistent.TimeStamp on raw '
    '8-byte values (raw(), laterThan(self) = next raw value); the concrete part and replays use the real TimeStamp',
    'the historical connection pool\'s dict (keyed by the bound) is replaced by a hash-free mapping so that the bound stays symbolic',
    'history G1 built through the real DB layer; shard packed: G1 packed to the time of its 5th transaction, bounds later than that',
    'datetime forms: instants of the history +- 1 microsecond chosen by a symbolic selector (datetime arithmetic itself '
    'is library code and is concretised)',
]


def succ(b):
    """The next 8-byte value (big-endian increment), computed bytewise so that symbolic ids stay cheap."""
    for i in range(7, -1, -1):
        if b[i] != 255:
            return b[:i] + (b[i] + 1).to_bytes(1, 'big') + b'\0' * (7 - i)
    raise OverflowError('no successor of ff*8')


class RawTS:
    """Ordering contract of persistent.TimeStamp over raw 8-byte values."""

    def __init__(self, *a):
        if len(a) != 1:
            raise TypeError('RawTS stands in for TimeStamp(raw) only')
        self.b = a[0]

    def raw(self):
        return self.b

    def laterThan(self, o):
        if self.b > o.b:
            return self
        return RawTS(succ(o.b))

    def __lt__(s, o):
        return s.raw() < o.raw()

    def __gt__(s, o):
        return s.raw() > o.raw()

    def __eq__(s, o):
        return s.raw() == o.raw()

    def __hash__(self):
        return 0


def _expected(m, bound):
    """oid -> data as of `bound` (exclusive) for every oid of the history (None = not there)."""
    return GR.state_at(m, bound)


def h_bound(tid: bytes, form: str, live_commit: bool, packed: bool = False, demo: bool = False) -> None:
    """demo: the history G1 is the base of a demo storage that has written some of its objects again."""
    assume(len(tid) == 8)
    assume(not (demo and packed))
    with untraced():
        from ZODB.POSException import POSKeyError, ReadOnlyHistoryError, ReadOnlyError
        env = T.Env()
        g = GR.G(env).build('G1')
        s = g.s
        if demo:
            import ZODB.DemoStorage
            g.close()
            s = ZODB.DemoStorage.DemoStorage(base=s)
            g = GR.G(env, storage=s)
            r_ = g.c.root()
            r_['a']['x'] = 50
            r_['demo_new'] = g.PM()
            g.commit('first commit through the demo storage: a, root and a new object')
            r_['a']['x'] = 51
            g.commit('second commit through the demo storage')
        m = GR.model_from_storage(s)
        last = m.last_tid()
        stop = None
        always = None
        if packed:
            # the history was packed to a time in its middle: points not older than that pack still show what they showed
            from ZODB.serialize import referencesf
            from persistent.TimeStamp import TimeStamp as _TS
            mid = m.txns[4].tid
            s.pack(_TS(mid).timeTime() + 0.0001, referencesf)
            stop = (int.from_bytes(mid, 'big') + 2 ** 20).to_bytes(8, 'big')
            # objects reachable in every state from the pack time on (the others may legitimately be collected)
            for t_ in m.txns:
                if t_.tid > mid:
                    r_ = GR.reachable(GR.state_at(m, t_.tid))
                    always = r_ if always is None else (always & r_)
            always &= GR.reachable(GR.state_at(m, b'\xff' * 8))
        real_ts = DBM.TimeStamp
        DBM.TimeStamp = RawTS
        from zverif.symenv.containers import AssocDict
        g.db.historical_pool.pools = AssocDict()       # keyed by the bound: must not hash it
    try:
        # ---- the bound, as the property defines it ----
        if form == 'before':
            bound = tid
            kw = dict(before=tid)
        else:
            assume(tid < b'\xff' * 8)
            bound = succ(tid)
            kw = dict(at=tid)
        if packed:
            assume(bound > stop)                             # "not older than the last pack"
        future = bound > succ(last)
        try:
            hc = g.db.open(g.tm.__class__(), **kw)           # traced: getTID, future check, Connection.__init__
            opened = True
        except ValueError:
            opened = False
        check(opened == (not future), 'future bound accepted / legal historical bound refused', tid, last)
        if not opened:
            reached()
            return
        if live_commit:
            with untraced():
                # live connections keep committing while the historical one is open
                r = g.c.root()
                r['a']['x'] = 99
                r['late'] = g.PM()
                g.commit('live commit while historical connection is open')
        exp = None
        with untraced():
            oids = m.oids() if always is None else sorted(always)
        for o in oids:
            try:
                got = hc._storage.load(o)               # traced: HistoricalStorageAdapter.load -> loadBefore(oid, bound)
            except POSKeyError:
                got = None
            try:
                w = m.load_before(o, bound)
                want = None if w is None else w[:2]
            except NoKey:
                want = None
            check(got == want, 'historical load differs from the state at the bound', o, got, want)
        # ---- concrete part: walk the object graph through the real Connection ----
        # representative of the bound's region (all bounds between two transaction ids select the same
        # state): the smallest transaction id >= bound, or the largest legal bound
        cb = succ(last)
        for t_ in reversed(m.txns):
            if bound <= t_.tid:
                cb = t_.tid
    finally:
        with untraced():
            DBM.TimeStamp = real_ts
    with untraced():
        # the historical pool is keyed by the (symbolic) bound: forget the symbolic connection
        g.db.historical_pool.pools = {}
        exp = _expected(m, cb)
        import transaction
        tm2 = transaction.TransactionManager()
        hc2 = g.db.open(tm2, before=cb)
        if exp.get(T.Z64) is None:
            try:
                hc2.root()
                fail('historical connection before the root was created shows a root')
            except KeyError:
                pass
        else:
            seen = {}
            todo = [hc2.root()]
            while todo:
                ob = todo.pop()
                o = ob._p_oid
                if o in seen:
                    check(seen[o] is ob, 'two in-memory objects for one oid in one connection', o)
                    continue
                seen[o] = ob
                want_state = pobj.state_of(exp[o])
                data = dict(ob.data)
                want_data = want_state['data']
                check(sorted(data) == sorted(want_data), 'keys of a historical object differ', o, sorted(data), sorted(want_data))
                for k, v in data.items():
                    w = want_data[k]
                    if isinstance(w, tuple) and w and w[0] == 'ref':
                        ref = w[1]
                        ref_oid = ref[0] if isinstance(ref, tuple) else ref
                        check(getattr(v, '_p_oid', None) == ref_oid, 'reference leads to a different object', o, k)
                        check(exp.get(ref_oid) is not None, 'model inconsistency: dangling reference')
                        todo.append(v)
                    else:
                        check(v == w, 'attribute value of a historical object differs', o, k, v, w)
            check(set(seen) == GR.reachable(exp), 'objects visible through the historical connection differ from the state at the bound')
            # any attempt to commit through it fails
            root = hc2.root()
            root['intruder'] = 1
            try:
                tm2.commit()
                fail('commit through a historical connection succeeded')
            except (ReadOnlyHistoryError, ReadOnlyError):
                tm2.abort()
            # the refused change is gone, a second attempt is refused as well, and nothing of it reaches later users
            check('intruder' not in hc2.root(), 'change refused by a historical connection is still shown after the abort')
            hc2.root()['intruder'] = 2
            try:
                tm2.commit()
                fail('second commit through a historical connection succeeded')
            except (ReadOnlyHistoryError, ReadOnlyError):
                tm2.abort()
            hc2.close()
            hc2 = g.db.open(tm2, before=cb)
            check('intruder' not in hc2.root(), 'a later user of the historical point is shown a change that was never committed')
            try:
                hc2._storage.store(T.oid(1), T.Z64, b'x', '', None)
                fail('store through the historical storage adapter accepted')
            except ReadOnlyError:
                pass
        hc2.close()
        check(GR.model_from_storage(s).last_tid() >= last, 'history lost')
    reached()


def h_datetime(sel: int, delta: int, form: str, tz: str) -> None:
    """Datetime forms of the historical point around every instant of the history: naive (UTC by
    definition) and timezone-aware datetimes with a non-zero offset."""
    with untraced():
        env = T.Env()
        g = GR.G(env).build('G1')
        m = GR.model_from_storage(g.s)
        n = len(m.txns)
    k = choose(sel, n)
    d = choose(delta + 1, 3) - 1                # -1, 0, +1 steps of 3 microseconds
    with untraced():
        import datetime
        from persistent.TimeStamp import TimeStamp
        ts = TimeStamp(m.txns[k].tid)
        sec = ts.second()
        utc = datetime.datetime(ts.year(), ts.month(), ts.day(), ts.hour(), ts.minute(), int(sec),
                                int(round((sec - int(sec)) * 1000000)) % 1000000)
        utc = utc + datetime.timedelta(microseconds=d * 3)
        # the bound the property means, computed here from the UTC instant (not with the code under test)
        want = TimeStamp(utc.year, utc.month, utc.day, utc.hour, utc.minute, utc.second + utc.microsecond / 1000000.0)
        bound = want.laterThan(want).raw() if form == 'at' else want.raw()
        if tz == 'naive':
            dt = utc
        else:
            off = datetime.timedelta(hours=5, minutes=30) if tz == 'east' else datetime.timedelta(hours=-7)
            dt = utc.replace(tzinfo=datetime.timezone.utc).astimezone(datetime.timezone(off))
        last = m.last_tid()
        lts = TimeStamp(last)
        future = bound > lts.laterThan(lts).raw()
        try:
            hc = g.db.open(g.tm.__class__(), **{form: dt})
            opened = True
        except ValueError:
            opened = False
        check(opened == (not future), 'datetime bound: future check wrong', k, d, tz)
        if opened:
            exp = GR.state_at(m, bound)
            for o in m.oids():
                try:
                    got = hc._storage.load(o)[0]
                except KeyError:
                    got = None
                check(got == exp.get(o), 'datetime bound: state differs from the state at that instant', o, k, d, tz)
            hc.close()
    reached()


def h_multidb_bound(tid: bytes, form: str) -> None:
    """Multi-database: the connection to a second database obtained from a historical connection
    (get_connection) shows that database exactly as of the SAME bound."""
    assume(len(tid) == 8)
    with untraced():
        from ZODB.POSException import POSKeyError
        from zverif import multidb
        from zverif.symenv.containers import AssocDict
        w = multidb.Multi('file')
        # interleaved history: the databases draw their transaction ids from one (scripted) clock
        for k in range(3):
            w.c2.root()['doc%d' % (k % 2)] = pobj.PObj(v=k)
            w.tm.commit()
            w.c1.root()['mark'] = k
            w.tm.commit()
        w.c2.root()['doc0'].v = 'newest'
        w.tm.commit()
        m1 = GR.model_from_storage(w.s['one'])
        m2 = GR.model_from_storage(w.s['two'])
        last1 = m1.last_tid()
        real_ts = DBM.TimeStamp
        DBM.TimeStamp = RawTS
        for d in w.db.values():
            d.historical_pool.pools = AssocDict()
    try:
        if form == 'before':
            bound = tid
            kw = dict(before=tid)
        else:
            assume(tid < b'\xff' * 8)
            bound = succ(tid)
            kw = dict(at=tid)
        assume(bound > m1.txns[0].tid)               # the primary's root exists
        # "a point later than the newest transaction is refused": judged against the database that is opened, whatever
        # newer transactions the other databases of the multi-database hold
        future = bound > succ(last1)
        try:
            hc = w.db['one'].open(w.transaction.TransactionManager(), **kw)
            opened = True
        except ValueError:
            opened = False
        check(opened == (not future), 'multi-database: future bound accepted / legal historical bound refused', last1)
        if not opened:
            reached()
            return
        sec = hc.get_connection('two')
        with untraced():
            oids = m2.oids()
        for o in oids:
            try:
                got = sec._storage.load(o)
            except POSKeyError:
                got = None
            try:
                x = m2.load_before(o, bound)
                want = None if x is None else x[:2]
            except NoKey:
                want = None
            check(got == want, 'secondary connection of a historical connection does not show the state at the same bound', o, got, want)
    finally:
        with untraced():
            DBM.TimeStamp = real_ts
            for d in w.db.values():
                d.historical_pool.pools = {}
            w.close_all()
    reached()


def h_mixed_commit(hist_first: bool, mod_live: bool, mod_hist: bool, sel: int) -> None:
    """A historical connection and a live connection of the same database joined to ONE transaction (either
    order of the two participants): the attempt to commit through the historical connection fails - it neither
    succeeds nor waits for a lock its own transaction holds - nothing of the transaction is committed, and the
    live connection commits normally afterwards."""
    with untraced():
        from zverif.symenv import locks
        env = T.Env()
        locks.install()
        try:
            g = GR.G(env).build('G1')
            m = GR.model_from_storage(g.s)
            k = choose(sel, len(m.txns) - 1) + 1            # any bound after the root's creation
            hc = g.db.open(g.tm, before=m.txns[k].tid)
            live = g.c
            # the transaction orders its participants by sortKey(): both orders
            hc.sortKey = lambda: '0' if hist_first else '2'
            live.sortKey = lambda: '1'
            last = g.s.lastTransaction()
            if mod_live:
                live.root()['a']['x'] = 'live-change'
            if mod_hist:
                hc.root()['hist-change'] = 1
            try:
                g.tm.commit()
                ok = True
            except locks.Blocked as ex:
                fail('commit with a historical connection waits forever for the commit lock held by its own transaction', str(ex))
            except Exception:
                ok = False
                g.tm.abort()
            check(ok == (not mod_hist), 'commit through a historical connection succeeded / a commit of live changes only failed', mod_live, mod_hist)
            if ok and mod_live:
                check(g.s.lastTransaction() != last, 'live change not committed')
            if not ok:
                check(g.s.lastTransaction() == last, 'a transaction with a change through a historical connection was stored')
                check(live.root()['a'].get('x') != 'live-change', 'live connection keeps the change of the failed transaction')
                live.root()['a']['x'] = 'after'
                try:
                    g.tm.commit()
                except Exception as ex:
                    fail('live connection cannot commit after the failed mixed transaction', type(ex).__name__, str(ex))
                check(g.s.lastTransaction() != last, 'follow-up commit stored nothing')
            hc.close()
        finally:
            locks.uninstall()
    reached()


HARNESSES = [
    Harness('bound', h_bound,
            decides='a connection opened at/before any 8-byte point shows every object exactly as the history had it at that '
                    'point (records, object graph, identity), is unaffected by later live commits, refuses commits, and a point '
                    'later than the newest transaction is refused',
            symbolic='tid (8 free bytes); form (at / before) and whether live connections commit meanwhile are shards',
            bounds='history G1 (9 transactions, 7 objects); demo: G1 as the base of a demo storage with 2 further commits', oracle='RevStore state at the bound; reachability',
            code=['DB.open', 'DB.getTID', 'HistoricalStorageAdapter.load/store', 'Connection.__init__ (before)', 'Connection.commit '
                  '(ReadOnlyHistoryError)', 'FileStorage.loadBefore'],
            quick=dict(timeout=170, shards=shards(form=['before', 'at'], live_commit=[True], packed=[False], demo=[False]) + shards(form=['before'], live_commit=[False], packed=[True], demo=[False])
                       + shards(form=['before'], live_commit=[False], packed=[False], demo=[True])),
            thorough=dict(timeout=900, shards=shards(form=['before', 'at'], live_commit=[True, False], packed=[False, True], demo=[False])
                          + shards(form=['before', 'at'], live_commit=[True, False], packed=[False], demo=[True]))),
    Harness('multidb_bound', h_multidb_bound,
            decides='in a multi-database the connection to another database obtained from a historical connection shows every '
                    'object of that database exactly as of the same 8-byte bound (given as at= or before=)',
            symbolic='tid (8 free bytes)', bounds='2 databases, 3+4 interleaved transactions; bound within the primary\'s history',
            oracle='RevStore state of the second database at the bound',
            code=['Connection.get_connection', 'DB.open', 'DB.getTID', 'HistoricalStorageAdapter.load', 'FileStorage.loadBefore'],
            quick=dict(timeout=150, shards=shards(form=['before', 'at'])),
            thorough=dict(timeout=600, shards=shards(form=['before', 'at']))),
    Harness('mixed_commit', h_mixed_commit,
            decides='a transaction joined by a historical and a live connection of one database (either participant order, either or '
                    'both modified): a change through the historical connection makes the commit FAIL (no success, no wait on the '
                    'transaction\'s own commit lock), nothing is stored, and the live connection commits afterwards',
            symbolic='participant order, which connections are modified, selector of the historical bound', bounds='history G1',
            oracle='last transaction id + live view', code=['Connection.tpc_begin/commit/_commit (ReadOnlyHistoryError)/tpc_abort', 'HistoricalStorageAdapter (copied tpc methods)',
                                                            'BaseStorage.tpc_begin (commit lock)'],
            quick=dict(timeout=100, shards=shards()), thorough=dict(timeout=200, shards=shards())),
    Harness('datetime', h_datetime,
            decides='datetime forms of at/before around every instant of the history select the same states',
            symbolic='selector over transactions, microsecond offset selector (-3, 0, +3 us); naive / aware (+05:30) / aware (-07:00) datetimes are shards',
            bounds='history G1', oracle='state at getTID(datetime)', code=['DB.toTimeStamp', 'DB.getTID', 'DB.open'],
            quick=dict(timeout=100, shards=shards(form=['at', 'before'], tz=['naive', 'east', 'west'])),
            thorough=dict(timeout=300, shards=shards(form=['at', 'before'], tz=['naive', 'east', 'west']))),
]

MANIFEST = dict(
    text='Bounded symbolic execution of DB.open(at=/before=) and the historical storage adapter with the historical point '
         'as 8 free bytes: every region of the point relative to the history (each tid, tid+1, in between, the future) is '
         'decided by the solver and each object\'s record compared with the model at that bound; per region the real '
         'historical Connection is then walked concretely (graph, identity, read-only).',
    note='TimeStamp calendar arithmetic replaced by its ordering contract in the symbolic part; datetime forms by selector; '
         'one graph history; also packed to its middle (bounds not older than the pack); multi-database: two databases, secondary newer than the bound.',
    design_ref='DESIGN.md section 4, C15',
)
