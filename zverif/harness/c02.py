"""C02 - every transaction reads from one consistent snapshot.

H-SCHED (context-bounded sequentialisation, DESIGN 3.4): the reader and the committer are
logical threads; one of them runs as the primary, the other's operations are injected,
atomically, at solver-chosen yield points of the primary - every lock operation, every
file-system call, every API boundary, and every source line of the snapshot-critical
functions (poll_invalidations, _invalidate, invalidate_finish, lastTransaction, tpc_finish).
The committer always writes x and y together with the same counter, so any read of two
different counters inside one transaction, a counter older than a commit that had completed
before the transaction boundary, or a changed object missing from the invalidations handed
to the connection, is a violation.
"""
import sys

import ZODB.FileStorage  # noqa: F401
import ZODB.MappingStorage
import ZODB.mvccadapter as MV

from zverif import pobj
from zverif import templates as T
from zverif.api import assume, check, fail, reached, untraced, choose, realize, note, pick
from zverif.spec import Harness, shards
from zverif.symenv import codec, locks

codec.install()
F = sys.modules['ZODB.FileStorage.FileStorage']
X, Y = T.oid(1), T.oid(2)

ASSUMPTIONS = [
    'sequentialisation: the injected thread\'s step runs to completion at the chosen yield point (it respects mutual exclusion: '
    'if it needs a lock held by the primary, or has to wait on a condition, that schedule is abandoned and counted); '
    'schedules in which both threads are in the middle of an operation at once are covered only as far as one of them can be '
    'placed atomically; context bound K = number of injected steps (1-3)',
    'yield points: all ZODB.utils lock operations, all file-system calls of the in-memory file layer, explicit points between '
    'API calls, and every source line of MVCCAdapterInstance.poll_invalidations/_invalidate/tpc_finish(+invalidate_finish)/load, '
    'MVCCAdapter._invalidate_finish, FileStorage.lastTransaction/tpc_finish/_finish_finish, MappingStorage.tpc_finish/lastTransaction',
    '2 connections (reader, writer) + optional second committer; <= 3 commits; object values concrete',
]


def _line_codes():
    import ZODB.BaseStorage as BS
    fns = [MV.MVCCAdapterInstance.poll_invalidations, MV.MVCCAdapterInstance._invalidate, MV.MVCCAdapterInstance.tpc_finish,
           MV.MVCCAdapterInstance.load, MV.MVCCAdapter._invalidate_finish, F.FileStorage.tpc_finish, F.FileStorage._finish_finish,
           F.FileStorage._finish, BS.BaseStorage.lastTransaction if hasattr(BS.BaseStorage, 'lastTransaction') else None]
    codes = [f.__code__ for f in fns if f is not None and hasattr(f, '__code__')]
    # nested function invalidate_finish inside tpc_finish
    for c in list(codes):
        for k in c.co_consts:
            if hasattr(k, 'co_code'):
                codes.append(k)
    for name in ('tpc_finish', 'lastTransaction'):
        f = ZODB.MappingStorage.MappingStorage.__dict__.get(name)
        g = getattr(f, '__func__', f)
        if hasattr(g, '__code__'):
            codes.append(g.__code__)
    f = F.FileStorage.__dict__.get('lastTransaction')
    if f is not None and hasattr(f, '__code__'):
        codes.append(f.__code__)
    return codes


class Sys:
    """Adapter-level system: storage + MVCC adapter, one writer instance, one reader instance."""

    def __init__(self, storage, stall=False):
        # stall: the clock does not advance, so every new transaction id is exactly the previous one + 1
        self.env = T.Env(step=0.0 if stall else 1.0)
        self.sch = locks.install(self.env.fs)
        self.s = self.env.filestorage() if storage == 'file' else self.env.mappingstorage()
        self.ad = MV.MVCCAdapter(self.s)
        self.w = self.ad.new_instance()
        self.r = self.ad.new_instance()
        self.serial = {X: T.Z64, Y: T.Z64}
        self.done = 0            # commits whose tpc_finish has returned
        self.started = 0

    def commit(self):
        self.started += 1
        v = self.started
        t = T.meta(b'w')
        self.w.tpc_begin(t)
        for o in (X, Y):
            self.w.store(o, self.serial[o], b'v%d' % v, '', t)
        self.w.tpc_vote(t)
        tid = self.w.tpc_finish(t)
        for o in (X, Y):
            self.serial[o] = tid
        self.done = v

    def close(self):
        locks.uninstall()
        self.env.fs.hook = None


def _val(data):
    return int(data[1:])


def h_reader_primary(at1: int, at2: int, k: int, storage: str, stall: bool) -> None:
    """Reader runs two transactions (poll, load x, load y); k commits are injected at yield points at1 <= at2."""
    assume(0 <= at1)
    if k == 2:
        assume(at1 <= at2)
    else:
        assume(at2 == 0)
    with untraced():
        sy = Sys(storage, stall)
        try:
            sy.commit()                                   # v1 committed before anything starts
            sch = sy.sch
            sch.add(at1, sy.commit, tid=1, name='commit')
            if k == 2:
                sch.add(at2, sy.commit, tid=1, name='commit')
            obs = []
            with locks.line_points(_line_codes()):
                sch.start()
                try:
                    cached = {}
                    for txn in range(2):
                        floor = sy.done                   # commits completed before the boundary
                        sch.point('api')
                        inv = sy.r.poll_invalidations()
                        sch.point('api')
                        # a connection keeps its cached copy unless the object is reported as invalidated
                        vals = []
                        for o in (X, Y):
                            if inv is None or o in inv or o not in cached:
                                cached[o] = _val(sy.r.load(o)[0])
                            vals.append(cached[o])
                            sch.point('api')
                        obs.append((floor, vals, None if inv is None else sorted(inv)))
                except locks.Blocked:
                    note('blocked')
                    sch.stop()
                    assume(False)
                sch.stop()
            assume(not sch.pending)                       # all k commits were injected
            note('inj', ','.join(str(t[0]) for t in sch.trace))
            last = 0
            for floor, vals, inv in obs:
                check(vals[0] == vals[1], 'one transaction read two different points of the commit order', vals, obs, sch.trace)
                check(vals[0] >= floor, 'snapshot older than a commit that had completed before the transaction boundary',
                      vals, floor, sch.trace)
                check(vals[0] >= last, 'later transaction sees an older state', obs)
                last = vals[0]
        finally:
            sy.close()
    reached()


def h_committer_primary(p1: int, p2: int, p3: int, split: int, storage: str, band: int) -> None:
    """Committer runs two commits; the reader's transaction (poll | load x | load y) is injected as up to 3
    ordered atomic steps at yield points p1 <= p2 <= p3 (split selects how the steps are grouped)."""
    assume(0 <= p1 <= p2 <= p3)
    if split != 0:
        assume(p3 == p2)
    # band (shard): splits the range of the first injection point so that shards run in parallel
    lo, hi = [(0, 10 ** 9), (0, 12), (12, 24), (24, 10 ** 9)][band]
    assume(lo <= p1 < hi)
    with untraced():
        sy = Sys(storage)
        try:
            sy.commit()
            sch = sy.sch
            st = {}
            # the reader is a connection with an object cache: in an earlier transaction it has loaded x (not y); it keeps
            # that copy unless x is reported as invalidated at its next transaction boundary
            sy.r.poll_invalidations()
            cached = {X: _val(sy.r.load(X)[0])}

            def poll():
                st['floor'] = sy.done
                st['inv'] = sy.r.poll_invalidations()

            def cload(o):
                inv = st['inv']
                if inv is None or o in inv or o not in cached:
                    cached[o] = _val(sy.r.load(o)[0])
                return cached[o]

            def lx():
                st['x'] = cload(X)

            def ly():
                st['y'] = cload(Y)
            if split == 0:          # poll | load x | load y
                steps = [(p1, poll), (p2, lx), (p3, ly)]
            elif split == 1:        # poll | load x + load y
                steps = [(p1, poll), (p2, lambda: (lx(), ly()))]
            else:                   # poll + load x | load y
                steps = [(p1, lambda: (poll(), lx())), (p2, ly)]
            for p, fn in steps:
                sch.add(p, fn, tid=1, name='reader')
            with locks.line_points(_line_codes()):
                sch.start()
                try:
                    sch.point('api')
                    sy.commit()
                    sch.point('api')
                    sy.commit()
                    sch.point('api')
                except locks.Blocked:
                    note('blocked')
                    sch.stop()
                    assume(False)
                sch.stop()
            assume(not sch.pending)
            check(st['x'] == st['y'], 'one transaction read two different points of the commit order', st, sch.trace)
            check(st['x'] >= st['floor'], 'snapshot older than a commit that had completed before the boundary', st, sch.trace)
        finally:
            sy.close()
    reached()


def h_reader_overlap(p1: int, q: int, p2: int, storage: str, band: int, pause: bool = False, qwin: str = '0:12') -> None:
    """Both threads in the middle of an operation: the reader's whole transaction (poll, read cached-or-load x, load y) is
    started at yield point p1 of the committer and, wherever it has to wait (reader pool, storage lock), it is SUSPENDED and
    the committer goes on; it resumes when the committer releases what it waits for."""
    assume(0 <= p1)
    if pause:
        # the reader also stops of its own accord at its qq-th own yield point (lock operations and source lines of the
        # snapshot-critical functions, e.g. between the two halves of poll_invalidations) and goes on at the committer's
        # yield point p2 >= p1; it starts during the second commit
        qlo, qhi = [int(x_) for x_ in qwin.split(':')]
        qq = pick(q, qlo, qhi)
        assume(p1 <= p2)
        # shards split the start points by residue (no absolute ranges: the number of yield points moves with the code)
        assume(p1 % 8 == band)
        lo, hi = 60, 10 ** 9
    else:
        qq = None
        assume(q == 0 and p2 == 0)
        lo, hi = [(0, 10 ** 9), (0, 20), (20, 40), (40, 10 ** 9)][band]
    assume(lo <= p1 < hi)
    with untraced():
        sy = Sys(storage)
        try:
            sy.commit()
            sch = sy.sch
            st = {}
            sy.r.poll_invalidations()
            cached = {X: _val(sy.r.load(X)[0])}

            def reader():
                st['floor'] = sy.done
                inv = sy.r.poll_invalidations()
                st['inv'] = inv
                for o, k in ((X, 'x'), (Y, 'y')):
                    if inv is None or o in inv or o not in cached:
                        cached[o] = _val(sy.r.load(o)[0])
                    st[k] = cached[o]
            sch.add(p1, reader, tid=1, name='reader', suspendable=True, pause_at=qq, resume_at=p2)
            with locks.line_points(_line_codes()):
                sch.start()
                try:
                    sch.point('api')
                    sy.commit()
                    sch.point('api')
                    sy.commit()
                    sch.point('api')
                    done = sch.finish_suspended()
                except locks.Blocked:
                    note('blocked')
                    sch.stop()
                    assume(False)
                sch.stop()
            assume(done and not sch.pending)
            assume('y' in st)
            check(st['x'] == st['y'], 'one transaction read two different points of the commit order', st, sch.trace)
            check(st['x'] >= st['floor'], 'snapshot older than a commit that had completed before the boundary', st, sch.trace)
        finally:
            sy.close()
    reached()


def h_connections(at1: int, at2: int, k: int, storage: str, reuse: bool) -> None:
    """Connection level: a reader connection (with its object cache, optionally closed and reused from the
    pool between its transactions) and a writer connection; k commits injected into the reader's activity."""
    assume(0 <= at1)
    if k == 2:
        assume(at1 <= at2)
    else:
        assume(at2 == 0)
    with untraced():
        import transaction
        import ZODB
        env = T.Env()
        sch = locks.install(env.fs)
        try:
            s = env.filestorage() if storage == 'file' else env.mappingstorage()
            db = ZODB.DB(s)
            tmw, tmr = transaction.TransactionManager(), transaction.TransactionManager()
            cw = db.open(tmw)
            cw.root()['x'] = pobj.PObj(v=1)
            cw.root()['y'] = pobj.PObj(v=1)
            tmw.commit()
            state = dict(done=1, started=1)
            if storage == 'demo':
                # the history so far becomes the base of a demo storage; one more commit goes into its changes
                # before the reader connection is created
                import ZODB.DemoStorage
                cw.close()              # (the first DB object is left alone: closing it would close the base storage)
                db = ZODB.DB(ZODB.DemoStorage.DemoStorage(base=s))
                cw = db.open(tmw)
                cw.root()['x'].v = 2
                cw.root()['y'].v = 2
                tmw.commit()
                state = dict(done=2, started=2)

            def commit():
                state['started'] += 1
                v = state['started']
                tmw.begin()
                cw.root()['x'].v = v
                cw.root()['y'].v = v
                tmw.commit()
                state['done'] = v
            sch.add(at1, commit, tid=1, name='commit')
            if k == 2:
                sch.add(at2, commit, tid=1, name='commit')
            cr = db.open(tmr)
            obs = []
            with locks.line_points(_line_codes()):
                sch.start()
                try:
                    for txn in range(2):
                        floor = state['done']
                        sch.point('api')
                        if reuse and txn == 1:
                            cr.close()
                            sch.point('api')
                            floor = state['done']
                            cr = db.open(tmr)
                        else:
                            tmr.begin()
                        sch.point('api')
                        x = cr.root()['x'].v
                        sch.point('api')
                        y = cr.root()['y'].v
                        sch.point('api')
                        obs.append((floor, [x, y]))
                        tmr.abort()
                except locks.Blocked:
                    note('blocked')
                    sch.stop()
                    assume(False)
                sch.stop()
            assume(not sch.pending)
            last = 0
            for floor, vals in obs:
                check(vals[0] == vals[1], 'one transaction read two different points of the commit order', obs, sch.trace)
                check(vals[0] >= floor, 'snapshot older than a commit that had completed before the transaction boundary', obs, sch.trace)
                check(vals[0] >= last, 'later transaction sees an older state', obs)
                last = vals[0]
        finally:
            locks.uninstall()
            env.fs.hook = None
    reached()


def h_undo_invalidation(at1: int, reuse: bool) -> None:
    """Connection level, undo: the writer undoes its two newest transactions (which wrote different objects) in ONE
    undo transaction, injected anywhere into the activity of a reader connection that has both objects cached:
    every reader transaction sees a committed state, and after the undo has completed the state it left."""
    assume(0 <= at1)
    with untraced():
        import transaction
        import ZODB
        env = T.Env()
        sch = locks.install(env.fs)
        try:
            db = ZODB.DB(env.filestorage())
            tmw, tmr = transaction.TransactionManager(), transaction.TransactionManager()
            cw = db.open(tmw)
            cw.root()['x'] = pobj.PObj(v=1)
            cw.root()['y'] = pobj.PObj(v=1)
            tmw.commit()
            cw.root()['x'].v = 2
            tmw.commit()
            cw.root()['y'].v = 3
            tmw.commit()
            states = [(1, 1), (2, 1), (2, 3)]        # committed states in commit order

            def undo():
                ids = [d['id'] for d in db.undoLog(0, 2)]
                db.undoMultiple(ids, tmw.get())
                tmw.commit()
                states.append((1, 1))
            sch.add(at1, undo, tid=1, name='undo of two transactions')
            cr = db.open(tmr)
            obs = []
            with locks.line_points(_line_codes()):
                sch.start()
                try:
                    for txn in range(3):
                        floor = len(states) - 1
                        sch.point('api')
                        if reuse and txn == 1:
                            cr.close()
                            sch.point('api')
                            floor = len(states) - 1
                            cr = db.open(tmr)
                        else:
                            tmr.begin()
                        sch.point('api')
                        x = cr.root()['x'].v
                        sch.point('api')
                        y = cr.root()['y'].v
                        sch.point('api')
                        obs.append((floor, (x, y), len(states)))
                        tmr.abort()
                except locks.Blocked:
                    note('blocked')
                    sch.stop()
                    assume(False)
                sch.stop()
            assume(not sch.pending)
            for floor, vals, n in obs:
                check(any(states[i] == vals for i in range(floor, n)),
                      'a reader transaction saw a state that is not a committed state at or after its boundary (undo of two transactions)',
                      obs, sch.trace)
        finally:
            locks.uninstall()
            env.fs.hook = None
    reached()


from zverif.harness.c05 import h_abort_reader as _abort_reader  # noqa: E402

from zverif.harness.c03 import h_commit_lock as _commit_order  # noqa: E402

HARNESSES = [
    Harness('reader_primary', h_reader_primary,
            decides='adapter level: with k whole commits injected anywhere into two consecutive reader transactions (poll, loads, '
                    'cache kept unless invalidated) every transaction sees one commit point, not older than the last commit '
                    'completed before its boundary, and never an older one than before',
            symbolic='injection points at1 <= at2 over all yield points of the reader', bounds='k = 1 or 2 injected commits; file and mapping storage; normal clock and a stalled clock (consecutive transaction ids differ by exactly 1)',
            oracle='equal counters; floor = completed commits at the boundary',
            code=['MVCCAdapterInstance.poll_invalidations/load/_invalidate', 'MVCCAdapter._invalidate_finish', 'FileStorage.loadBefore/'
                  'lastTransaction/tpc_finish', 'FilePool.get/write_lock', 'MappingStorage.loadBefore/tpc_finish'],
            quick=dict(timeout=150, shards=shards(k=[1, 2], storage=['file', 'mapping'], stall=[False]) + shards(k=[1], storage=['file', 'mapping'], stall=[True])),
            thorough=dict(timeout=600, shards=shards(k=[1, 2], storage=['file', 'mapping'], stall=[False, True]))),
    Harness('committer_primary', h_committer_primary,
            decides='adapter level, other role assignment: the reader\'s poll and loads injected as ordered atomic steps anywhere '
                    'into two consecutive commits (including inside tpc_finish / invalidate_finish) read one commit point that is not stale',
            symbolic='p1 <= p2 <= p3 over all yield points of the committer; grouping of the reader steps is a shard',
            bounds='2 commits, one reader transaction of 2-3 steps', oracle='as above',
            code=['MVCCAdapterInstance.tpc_finish/invalidate_finish', 'FileStorage.tpc_finish/_finish/_finish_finish', 'MappingStorage.tpc_finish'],
            quick=dict(timeout=170, shards=shards(split=[1, 2], storage=['mapping'], band=[0]) + shards(split=[1, 2], storage=['file'], band=[1, 2, 3])),
            thorough=dict(timeout=1500, shards=shards(split=[0, 1, 2], storage=['mapping'], band=[0]) + shards(split=[0, 1, 2], storage=['file'], band=[1, 2, 3]))),
    Harness('abort_reader', _abort_reader,
            decides='a reader loading through the pooled, buffered file handles at any point while a transaction votes, is aborted and '
                    'the next one commits at the same file position never reads a state that was not committed (same harness as C05)',
            symbolic='at = injection point of the reader\'s load', bounds='template T1', oracle='RevStore',
            code=['FileStorage._abort (FilePool.flush)', 'FilePool.get/empty'],
            quick=dict(timeout=100, shards=shards(template=['T1'])), thorough=dict(timeout=300, shards=shards(template=['T1', 'T2']))),
    Harness('connections', h_connections,
            decides='Connection level: reads through the object cache and the storage within one transaction belong to one commit '
                    'point, also for a connection closed and reused from the pool, with commits injected anywhere',
            symbolic='injection points at1 <= at2 over all yield points of the reader connection\'s activity',
            bounds='k = 1 or 2 commits; reader transactions: 2; with/without pool reuse', oracle='as above',
            code=['Connection.newTransaction/open/close/setstate/_flush_invalidations', 'DB.open/_returnToPool', 'MVCCAdapterInstance.*'],
            quick=dict(timeout=170, shards=shards(k=[1], storage=['file', 'mapping'], reuse=[False, True]) + shards(k=[1], storage=['demo'], reuse=[False])),
            thorough=dict(timeout=1200, shards=shards(k=[1, 2], storage=['file', 'mapping', 'demo'], reuse=[False, True]))),
    Harness('undo_invalidation', h_undo_invalidation,
            decides='an undo of two transactions (different objects) in one undo transaction, injected anywhere into a reader connection\'s '
                    'activity: every reader transaction sees a committed state, afterwards the state the undo left',
            symbolic='injection point over all yield points of the reader connection\'s activity',
            bounds='one undo transaction undoing 2 transactions; reader transactions: 3; with/without pool reuse', oracle='set of committed states from the boundary on',
            code=['DB.undoMultiple', 'UndoAdapterInstance.undo/tpc_finish', 'MVCCAdapter._invalidate_finish', 'Connection._flush_invalidations'],
            quick=dict(timeout=170, shards=shards(reuse=[False, True])),
            thorough=dict(timeout=600, shards=shards(reuse=[False, True]))),
    Harness('reader_overlap', h_reader_overlap,
            decides='a reader transaction (connection with an object cache) started at any yield point of a committer and SUSPENDED '
                    'wherever it has to wait - so that both are in the middle of an operation - still reads one point of the commit order, '
                    'not older than the commits completed before its boundary',
            symbolic='start point p1 of the reader over lock operations, file-system calls, API boundaries and source lines of the snapshot-critical functions',
            bounds='2 commits, 1 reader transaction that starts during the second commit; besides waiting, the reader stops once of its own accord at one of its own yield points (quick: the 6 points around the two halves of poll_invalidations; thorough: its first 12) and resumes at a later yield point of the committer; the reader runs in a helper thread under strict hand-over (one thread runs at a time)',
            oracle='equal counters + floor', code=['FileStorage.loadBefore / _lookup_pos / FilePool.get', 'FileStorage.tpc_finish', 'MVCCAdapterInstance.poll_invalidations/load'],
            quick=dict(timeout=240, shards=shards(storage=['file'], band=[1, 2, 3], pause=[False]) + shards(storage=['file'], band=[0, 1, 2, 3, 4, 5, 6, 7], pause=[True], qwin=['3:9'])),
            thorough=dict(timeout=1200, shards=shards(storage=['file', 'mapping'], band=[0], pause=[False]) + shards(storage=['file', 'mapping'], band=[0, 1, 2, 3, 4, 5, 6, 7], pause=[True], qwin=['0:12']))),
    Harness('commit_order', _commit_order,
            decides='two committers of different objects, the second one\'s whole commit injected at any yield point of the first one\'s '
                    'two-phase commit: transaction ids follow the order in which the commits finish and lastTransaction is the newest - '
                    'what snapshot bounds are computed from (C03 commit_lock, same=False)',
            symbolic='injection point over lock operations, file-system calls and API boundaries', bounds='2 committers, 1 injected commit',
            oracle='finish order', code=['BaseStorage.tpc_begin', 'MappingStorage.tpc_begin', 'DemoStorage.tpc_begin'],
            quick=dict(timeout=100, shards=shards(storage=['file', 'mapping', 'demo'], same=[False])),
            thorough=dict(timeout=300, shards=shards(storage=['file', 'mapping', 'demo'], same=[False]))),
]

MANIFEST = dict(
    text='Sequentialised schedule search on the real code: the point at which the other thread\'s step runs is a solver '
         'variable ranging over every lock operation, file-system call, API boundary and source line of the snapshot-critical '
         'functions; both role assignments (reader primary / committer primary) and the Connection level with pool reuse are '
         'explored and the bounded schedule space is exhausted.  Every explored schedule is a real schedule (the injected step '
         'respects mutual exclusion), so a violation is a real interleaving; the solver certifies that no injection point '
         'inside the bound was skipped.',
    note='context bound: 1-3 injected atomic steps, plus reader_overlap (one reader transaction that is suspended where it has to wait and stops once of its own accord); other schedules where both threads are mid-operation simultaneously, '
         'bytecode-level preemption outside the listed functions, and three or more threads are outside the claim; packer '
         'interleavings are C08; the injected reader of committer_primary keeps a cached x from an earlier transaction.',
    design_ref='DESIGN.md section 4, C02',
)
