"""C01 - committed transactions survive a crash at any point; unfinished ones vanish.

H-CUT: a history template is recorded through the real storage API on the logging file layer
(real io buffering, so the log holds the OS-level writes, truncates and fsyncs in issue
order).  The crash is symbolic: `p` = number of logged operations that reached the disk,
`j` = number of bytes of operation p that did (torn write).  The data file of the image has a
symbolic LENGTH over concrete content; reopening it executes FileStorage.__init__/read_index/
_truncate under CrossHair.  Durability: the crash instant ranges up to the next fsync after p,
and every transaction whose commit had returned by then must be present.
"""
import sys

import ZODB.FileStorage  # noqa: F401

from zverif import battery as B
from zverif import templates as T
from zverif.api import assume, check, fail, reached, untraced, choose, realize, note, decide
from zverif.model import fsparse
from zverif.model.revstore import RevStore
from zverif.spec import Harness, shards
from zverif.symenv import codec, vfs

codec.install()

DATA = '/db/Data.fs'

ASSUMPTIONS = [
    'crash model: the disk holds a prefix of the logged OS-level operations (in issue order across files) plus a '
    'byte-prefix of the next write; everything issued before an fsync is on disk once the fsync has been issued and '
    'passed; un-fsynced operations may be lost only as a suffix (no reordering below program order)',
    'OS-level operations are those CPython\'s real io.Buffered* classes issue on the raw file object of the '
    'in-memory file layer (validated against the OS at start-up)',
    'history templates T1-T6, T10; the crash is placed in the writes of the last `tail` transactions',
    'the crash is taken after the storage has been created (first operation after the initial open)',
]


def _record(template, save_index_each=False):
    """-> (log, model, first_index): the op log of a full template run with begin/returned marks."""
    env, s, h = T.build_file(template, marks=True, save_index_each=save_index_each)
    s.close()
    return env.fs.log, h.m


def _data_ops(log):
    return [i for i, e in enumerate(log) if e[0] in ('write', 'truncate') and e[1] == DATA]


def _observe(s):
    """Number of transactions the reopened storage lists (by iteration)."""
    it = s.iterator()
    try:
        return [t.tid for t in it]
    finally:
        it.close()


def h_crash(p: int, j: int, template: str, tail: int, ro: bool = False) -> None:
    """ro: the writer saved its index after every commit and the crash image is reopened READ-ONLY with the index
    file it holds (a reader next to the dead writer, a backup tool): the open succeeds, changes nothing and shows
    the same prefix."""
    with untraced():
        log, m = _record(template, save_index_each=ro)
        ops = _data_ops(log)
        # cut candidates: data-file operations belonging to the last `tail` transactions, plus "after everything"
        begins = [i for i, e in enumerate(log) if e[0] == 'mark' and e[1] == 'begin']
        first = begins[-tail] if tail <= len(begins) else begins[0]
        cand = [i for i in ops if i >= first] + [len(log)]
    k = choose(p, len(cand))
    with untraced():
        pi = cand[k]
        files, dirs = vfs.image(log, pi)
        # crash instant t ranges over [pi, next fsync at or after pi]; strongest obligation at the upper end
        nxt = len(log)
        for i in range(pi, len(log)):
            if log[i][0] == 'fsync' and log[i][1] == DATA:
                nxt = i
                break
        must = sum(1 for e in log[:nxt] if e[0] == 'mark' and e[1] == 'returned')
        may = sum(1 for e in log[:pi + 1] if e[0] == 'mark' and e[1] == 'begin')
        env = T.Env()
        for path, data in files.items():
            if path != DATA and not path.endswith('.lock') and not path.endswith('.tmp'):
                env.fs.put(path, data)
    symsize = None
    if pi < len(log):
        e = log[pi]
        if e[0] == 'write':
            _, _, pos, b = e
            assume(0 <= j <= len(b))
            cur = files.get(DATA, b'')
            if pos + len(b) >= len(cur):
                # append (or overwrite reaching the end): whole op applied, file length symbolic
                vfs.apply_op(files, dirs, e)
                symsize = pos + j
                if pos + j < len(cur):
                    symsize = None
                    jj = realize(j)
                    files[DATA] = cur[:pos] + b[:jj] + cur[pos + jj:]
            else:
                jj = realize(j)
                files[DATA] = cur[:pos] + b[:jj] + cur[pos + jj:]
        else:
            assume(j == 0)
    else:
        assume(j == 0)
    assume(DATA in files)
    env.fs.put(DATA, files[DATA], symsize=symsize)
    note('cut_op', k)
    # ---- reopen: the code under test (traced; file length symbolic) ----
    try:
        s = env.filestorage(read_only=True) if ro else env.filestorage()
    except Exception as ex:
        fail('reopen after crash raised', type(ex).__name__, str(ex)[:200], pi, j, ro)
    with untraced():
        node = env.fs.files[DATA]
    if node.symsize is not None:
        n_ = realize(node.symsize)
        with untraced():
            node.data = node.data[:n_]
            node.symsize = None
    with untraced():
        tids = _observe(s)
        n = len(tids)
        check(must <= n, 'a transaction whose commit had returned is missing after the crash',
              'returned=%d present=%d cut_op=%d %r' % (must, n, pi, log[pi] if pi < len(log) else None))
        check(n <= may, 'a transaction that was never started before the crash is present', n, may)
        pm = RevStore(m.txns[:n])
        check(tids == [t.tid for t in pm.txns], 'transactions after crash are not a prefix of the commit order')
        B.full_battery(s, pm)
        if ro:
            s.close()
            reached()
            return
        # the recovered file is a clean sequence of complete transactions
        s._file.flush()
        raw = bytes(env.fs.content(DATA))
        try:
            parsed = fsparse.parse(raw)
        except fsparse.BadFile as ex:
            fail('data file after recovery is not a clean sequence of transactions', str(ex))
        check([t.tid for t in parsed] == tids, 'file content differs from what the storage lists')
        # the recovered storage is usable: one more commit, then everything again (and once more after reopen)
        h2 = T.Hist(s, pm.copy())
        for o in pm.oids():
            try:
                h2.serial[o] = pm.load(o)[1]
            except Exception:
                h2.serial[o] = pm.revs(o)[-1][0]
        h2.commit([(T.oid(1), b'after-crash'), (T.oid(77), b'new')], b'post', b'crash')
        B.full_battery(s, h2.m)
        s.close()
        s3 = env.filestorage()
        B.full_battery(s3, h2.m)
        s3.close()
    reached()


def h_finish_fault(f: int, template: str) -> None:
    """The f-th low-level operation of tpc_finish (the write of the status byte, the flush, the fsync) fails.  The commit
    must not return as if it had succeeded - "a commit does not return before its data has been forced to stable
    storage" - and what is on disk afterwards is a prefix: the history with or without this transaction, in full."""
    assume(f >= 0)
    with untraced():
        from zverif.harness.c05 import RECS
        env, s, h = T.build_file(template)
        fs = env.fs
        before = [B.txn_view(t_) for t_ in s.iterator()]
        t = T.meta(b'u', b'finishing')
        s.tpc_begin(t)
        for o, d in RECS:
            s.store(o, h.serial.get(o, T.Z64), d, '', t)
        s.tpc_vote(t)
    fs.fail_at = fs.nops + f
    with untraced():
        try:
            s.tpc_finish(t)
            returned = True
        except Exception:
            returned = False
        fs.fail_at = None
        assume(bool(fs.fault_log))              # f beyond the last operation of the finish: nothing to see
        note('fired', fs.fault_log[-1][1])
        check(not returned, 'tpc_finish returned normally although one of its I/O operations (status byte write / flush / fsync) '
                            'failed: the commit is reported before its data is on stable storage', fs.fault_log[-1][1])
        try:
            s.close()
        except Exception:
            pass
        s2 = env.filestorage()
        after = [B.txn_view(t_) for t_ in s2.iterator()]
        check(after[:len(before)] == before and len(after) in (len(before), len(before) + 1),
              'after a failed finish the file does not hold the previous history plus at most this transaction', len(before), len(after))
        if len(after) > len(before):
            check(sorted((r[0], r[2]) for r in after[-1][5]) == sorted(RECS), 'the transaction of the failed finish is present only in part')
        s2.close()
    reached()


from zverif.harness.c05 import h_fault as _failed_vote  # noqa: E402
from zverif.harness.c05 import h_fault_late as _failed_exit, known_abort_truncate_fault  # noqa: E402,F401

HARNESSES = [
    Harness('crash', h_crash,
            decides='for every durable prefix p of the OS-level operations and every byte-tear j of operation p: reopen '
                    'succeeds, shows exactly a prefix of the commit order containing every transaction whose commit '
                    'could have returned before the crash (fsync ordering), answers every revision query like that '
                    'prefix, leaves a clean file, and accepts further commits',
            symbolic='p (selector over the data-file operations of the last `tail` transactions, forked), '
                     'j (tear: symbolic length of the data file over concrete content)',
            bounds='templates per shard; tail = number of trailing transactions whose writes are cut',
            oracle='RevStore prefix + independent file parser (fsparse)',
            code=['FileStorage.__init__', 'read_index', '_truncate', '_restore_index', '_save_index', 'load*', 'iterator',
                  '(recorded concretely) tpc_begin/store/tpc_vote/_finish/_finish_finish/_abort/undo/restore'],
            quick=dict(timeout=170, shards=shards(template=['T1', 'T2', 'T4', 'T6', 'T10'], tail=[2], ro=[False]) + shards(template=['T1', 'T4'], tail=[2], ro=[True])),
            thorough=dict(timeout=1500, shards=shards(template=['T1', 'T2', 'T3', 'T4', 'T5', 'T6', 'T10'], tail=[2, 4], ro=[False])
                          + shards(template=['T1', 'T2', 'T4', 'T6'], tail=[2], ro=[True]))),
    Harness('failed_exit', _failed_exit,
            decides='a transaction that left two-phase commit through a failure (tpc_finish callback raising; I/O error at a solver-chosen operation of tpc_abort) is absent in full: none '
                    'of its records appear in the following transactions, also after reopen (same harness as C05 fault_late)',
            symbolic='f = index of the failing operation of tpc_abort', bounds='template T1; the failed transaction has 3 records; no reads between the failure and the following commits (reader buffers: C05)', oracle='RevStore battery',
            code=['BaseStorage.tpc_begin (_clear_temp)', 'FileStorage.tpc_finish'],
            quick=dict(timeout=60, shards=shards(template=['T1'], where=['finish_cb', 'abort'], probe=[False])),
            thorough=dict(timeout=60, shards=shards(template=['T1', 'T4'], where=['finish_cb', 'abort'], probe=[False]))),
    Harness('failed_vote', _failed_vote,
            decides='an I/O error at any low-level operation of begin/store/vote (optionally after a short write): after the abort the '
                    'data file is byte-identical - nothing of the failed transaction is left for a later open to find (same harness as C05 fault)',
            symbolic='f = index of the failing operation, short = length of the preceding short write', bounds='template T1, 3 records',
            oracle='pre-state bytes + RevStore battery', code=['FileStorage.tpc_vote (failure branch)', '_abort', 'BaseStorage.tpc_abort'],
            quick=dict(timeout=100, shards=shards(template=['T1'], nrec=[3], use_short=[False, True])),
            thorough=dict(timeout=300, shards=shards(template=['T1', 'T4'], nrec=[1, 3], use_short=[False, True]))),
    Harness('finish_fault', h_finish_fault,
            decides='if any low-level operation of tpc_finish fails (status byte write, flush, fsync) the commit does not return normally, '
                    'and the file then holds the previous history plus at most this transaction, in full',
            symbolic='f = index of the failing operation of tpc_finish', bounds='templates T1 (thorough: T4); transaction of 3 records',
            oracle='iteration before / after reopen', code=['FileStorage.tpc_finish', '_finish', '_finish_finish (fsync)'],
            quick=dict(timeout=60, shards=shards(template=['T1'])), thorough=dict(timeout=60, shards=shards(template=['T1', 'T4']))),
]

MANIFEST = dict(
    text='Bounded symbolic execution: crash point = (durable prefix p of the recorded OS-level operations, tear j of '
         'operation p) with j a symbolic file length; FileStorage recovery (read_index/_truncate) is executed by '
         'CrossHair on the image, so every byte position of every cut write falls in some explored path region; '
         'durability is checked by letting the crash instant run up to the next fsync.  The outcome is compared '
         'with a prefix of the model history through every revision query and an independent file parser.  Symbolic fault injection (index of the failing '
         'operation) covers the exits of two-phase commit through a failure: failing vote, failing finish (status byte write / '
         'flush / fsync: the commit must not return normally), failing abort, raising finish callback.',
    note='crash model = prefix of issue order + torn last write (no reordering of un-fsynced writes); history templates; '
         'cut placed in the last 2 (quick) / 4 (thorough) transactions; recording phase runs concretely.',
    design_ref='DESIGN.md section 4, C01',
)
