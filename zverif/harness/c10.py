"""C10 - conflict resolution stores exactly the class's three-way merge.

H-ARG: which revision the writer started from and which is committed are symbolic selectors
(as serial bytes: see C03 for the fully symbolic serial); the resolver's behaviour (value /
exception / ConflictError / class without resolver / class not importable) is a selector; a
persistent reference inside the writer's state carries 8 SYMBOLIC oid bytes in a solver-
chosen reference format and must come out of the merge unchanged.  The Connection-level
harness checks that the resolved object is re-read as merged and that a failed resolution
fails the commit with nothing stored.
"""
import io
import sys

import ZODB.ConflictResolution as CR
import ZODB.DemoStorage
import ZODB.FileStorage  # noqa: F401

from zverif import battery as B
from zverif import pobj
from zverif import templates as T
from zverif.api import assume, check, fail, reached, untraced, choose, realize, note
from zverif.harness.c06 import h_multi_undo as _undo_merge  # noqa: E402  (the undo path uses the same resolver)
from zverif.harness.c14 import SegBytes, SegBytesIO, FORMATS, make_record, split, _placeholder, gone_forget, GONE

# references to a class that cannot be imported where the conflict is resolved (BadClass branch)
FORMATS10 = FORMATS + ['oid_class_gone', 'multi_class_gone']
from zverif.model.revstore import MRec, MTxn
from zverif.spec import Harness, shards
from zverif.symenv import codec
from zverif.symenv.containers import AssocDict

codec.install()

ASSUMPTIONS = [
    'object states are concrete representatives chosen so that every permutation of (old, committed, new) gives a '
    'different merge (zverif.pobj.PCounter); what is symbolic is which revisions play which role, the resolver outcome, '
    'and the oid bytes / format of a persistent reference carried through the merge',
    'ZODB.ConflictResolution.BytesIO is rebound to a Python reader/writer over segments and the reference factory\'s '
    'memo dict to a hash-free mapping, so that symbolic oid bytes are moved, not concretised',
    'pure-Python zodbpickle during symbolic execution of the reference harness',
]


def _hist(h):
    c = pobj.counter_record
    h.commit([(T.oid(1), c(1, 'r1')), (T.oid(2), pobj.record(pobj.PNoResolve(1)))])
    h.commit([(T.oid(1), c(3, 'r2'))])
    h.commit([(T.oid(1), c(7, 'r3')), (T.oid(2), pobj.record(pobj.PNoResolve(2)))])
    h.commit([(T.oid(1), c(15, 'r4'))])


def _mk(storage):
    env = T.Env()
    if storage == 'file':
        s = env.filestorage()
        h = T.Hist(s)
        _hist(h)
    else:
        base = env.mappingstorage()
        hb = T.Hist(base)
        c = pobj.counter_record
        hb.commit([(T.oid(1), c(1, 'r1')), (T.oid(2), pobj.record(pobj.PNoResolve(1)))])
        hb.commit([(T.oid(1), c(3, 'r2'))])
        s = ZODB.DemoStorage.DemoStorage(base=base)
        h = T.Hist(s, hb.m.copy())
        h.serial = dict(hb.serial)
        h.commit([(T.oid(1), c(7, 'r3')), (T.oid(2), pobj.record(pobj.PNoResolve(2)))])
        h.commit([(T.oid(1), c(15, 'r4'))])
    return env, s, h


MODES = ['value', 'raise', 'conflict', 'noresolver', 'notimportable', 'garbage', 'attrerror']


def h_resolve(old_sel: int, mode_sel: int, storage: str, klass: str = 'PCounter') -> None:
    """store() of a writer that started from revision old_sel while revision 4 is committed."""
    with untraced():
        from ZODB.POSException import ConflictError
        pobj.COUNTER_CLASS[0] = klass
        env, s, h = _mk(storage)
        revs = h.m.revs(T.oid(1))
        CR._unresolvable.clear()
        CR._class_cache.clear()
        pobj.PCounter.calls = []
    k = choose(old_sel, len(revs))
    mode = MODES[choose(mode_sel, len(MODES))]
    with untraced():
        pobj.PCounter.mode = mode if mode in ('value', 'raise', 'conflict', 'attrerror') else 'value'
        o = T.oid(1)
        new = pobj.counter_record(100, 'new')
        if mode == 'noresolver':
            o = T.oid(2)
            revs = h.m.revs(o)
            k = min(k, len(revs) - 1)
            new = pobj.record(pobj.PNoResolve(50))
        elif mode == 'notimportable':
            new = new.replace(b'zverif.pobj', b'zverif.gone')
        elif mode == 'garbage':
            new = b'this is not a pickle'
        serial = revs[k][0]
        cur = revs[-1][0]
        t = T.meta(b'w', b'conflicting writer')
        s.tpc_begin(t)
        raised = False
        try:
            s.store(o, serial, new, '', t)
        except ConflictError:
            raised = True
        note('case', '%s/%d' % (mode, k))
        if serial == cur:
            check(not raised, 'store on the current revision refused')
            check(pobj.PCounter.calls == [], 'resolver called although there was no conflict')
            s.tpc_abort(t)
        elif mode == 'value':
            check(not raised, 'resolvable conflict not resolved', k)
            olds, comm, news = pobj.state_of(revs[k][1].data), pobj.state_of(revs[-1][1].data), pobj.state_of(new)
            check(pobj.PCounter.calls == [(olds, comm, news)],
                  'resolver did not receive (state the writer started from, committed state, new state) in that order',
                  pobj.PCounter.calls)
            res = s.tpc_vote(t)
            check(res and o in list(res), 'resolved oid not reported at vote', res)
            tid = s.tpc_finish(t)
            from ZODB.utils import load_current
            data, tid2 = load_current(s, o)
            want = dict(news, n=comm['n'] + news['n'] - olds['n'], tag='merge(%s|%s|%s)' % (olds['tag'], comm['tag'], news['tag']))
            check(tid2 == tid and pobj.state_of(data) == want, 'stored revision is not exactly the resolver\'s result',
                  pobj.state_of(data), want)
            check(data[:data.index(b'.') + 1] == new[:new.index(b'.') + 1], 'class metadata of the merged record changed')
            # ... and it can be loaded by a connection that does not have the object in memory yet
            try:
                from ZODB.serialize import ObjectReader
                ob = ObjectReader(factory=lambda conn, mod, name: getattr(pobj, name)).getGhost(data)
                check(type(ob).__name__ == klass, 'merged record creates an object of another class', type(ob).__name__)
            except Exception as ex:
                fail('the merged record cannot be turned into an object by a fresh reader', type(ex).__name__, str(ex)[:100])
        else:
            check(raised, 'conflict that cannot be resolved (%s) did not raise ConflictError' % mode, k)
            s.tpc_abort(t)
            demo = isinstance(s, ZODB.DemoStorage.DemoStorage)
            B.full_battery(s, h.m, data_txn=hasattr(s, '_file'), undo_log=hasattr(s, 'undoLog') and not demo, iterator=not demo)
            # a failed resolution must not poison later ones: an ordinary resolvable conflict on the same class
            # (same process) is still resolved
            if mode in ('raise', 'attrerror', 'conflict'):
                pobj.PCounter.mode = 'value'
                pobj.PCounter.calls = []
                revs1 = h.m.revs(T.oid(1))
                t2 = T.meta(b'w', b'second conflict')
                s.tpc_begin(t2)
                try:
                    s.store(T.oid(1), revs1[0][0], pobj.counter_record(100, 'new'), '', t2)
                except ConflictError:
                    fail('a resolvable conflict is refused after an earlier resolver failure (%s) on the same class' % mode)
                s.tpc_abort(t2)
    reached()


class PRefCounter(pobj.PCounter):
    """Counter whose state also holds persistent references; the resolver keeps the writer's references."""

    def _p_resolveConflict(self, old, committed, new):
        out = dict(new)
        out['n'] = committed['n'] + new['n'] - old['n']
        out['kept_from_committed'] = committed.get('ref')
        return out


pobj.PRefCounter = PRefCounter
PRefCounter.__module__ = 'zverif.pobj'


def _ref_record(n, fmt, nslots=1):
    """Record of a PRefCounter whose state has reference slots with placeholders."""
    from ZODB._compat import PersistentPickler, _protocol
    from zverif.harness import c14
    marks = [c14._Marker(i, fmt) for i in range(nslots)]
    state = {'n': n, 'ref': marks[0], 'plain': ['x', marks[-1]]}
    f = io.BytesIO()
    p = PersistentPickler(lambda ob: c14._pid(ob) if isinstance(ob, c14._Marker) else None, f, _protocol)
    p.dump(PRefCounter)
    p.dump(state)
    raw = f.getvalue()
    if fmt.startswith('legacy_str'):
        raw = raw.replace(b'C\x08' + _placeholder(0), b'U\x08' + _placeholder(0))
    return raw


def h_refs(o: bytes, fmt_sel: int) -> None:
    """A persistent reference with symbolic oid bytes in the writer's state survives the merge unchanged
    (oid, database, weakness, format)."""
    assume(len(o) == 8)
    fmt = FORMATS10[choose(fmt_sel, len(FORMATS10))]
    if fmt.startswith('legacy_str'):
        # the unpickler decodes str oids (library code that concretises): one ASCII representative
        assume(o == b'ASCIIoid')
    with untraced():
        env = T.Env()
        s = env.filestorage()
        h = T.Hist(s)
        fixed = b'\0\0\0\0\0\0\x07\x77'
        r1 = _ref_record(1, 'oid').replace(_placeholder(0), fixed)
        r2 = _ref_record(5, 'oid_class').replace(_placeholder(0), fixed)
        h.commit([(T.oid(1), r1)])
        h.commit([(T.oid(1), r2)])
        revs = h.m.revs(T.oid(1))
        raw = _ref_record(100, fmt)
        gone_forget()
        parts = split(raw, 1)
        CR._unresolvable.clear()
        real_io, real_data = CR.BytesIO, CR.PersistentReferenceFactory.data
        CR.BytesIO = SegBytesIO
        CR.PersistentReferenceFactory.data = AssocDict()
    try:
        new = SegBytes([o if isinstance(p, int) else p for p in parts])
        out = s.tryToResolveConflict(T.oid(1), revs[-1][0], revs[0][0], new)
    finally:
        CR.BytesIO = real_io
        CR.PersistentReferenceFactory.data = real_data
    # decode the merged record without touching classes
    import zodbpickle.pickle
    refs = []
    u = zodbpickle.pickle.Unpickler(SegBytesIO(out), encoding='ASCII', errors='bytes')
    u.persistent_load = lambda r: refs.append(r) or ('ref', len(refs) - 1)
    u.find_class = lambda m, n: (m, n)
    meta = u.load()
    st = u.load()
    check(st['n'] == 5 + 100 - 1, 'merge arithmetic wrong', st['n'])
    check(st['ref'] == ('ref', 0) or st['ref'][0] == 'ref', 'writer\'s reference lost in the merged state')
    got = refs[st['ref'][1]]
    want = PRefCounter.__mro__ and None
    # expected persistent id of the writer's reference, with the symbolic oid in place
    with untraced():
        from zverif.harness import c14
        wp = c14._pid(c14._Marker(0, fmt))
    def same(a, b):
        """structural equality where the placeholder in b stands for o"""
        if isinstance(b, (bytes, str)):
            bb = b if isinstance(b, bytes) else b.encode('latin-1')
            if bb == _placeholder(0):
                aa = a if isinstance(a, bytes) else a.encode('latin-1')
                return aa == o
            return a == b
        if isinstance(b, (list, tuple)):
            return isinstance(a, (list, tuple)) and len(a) == len(b) and all(same(x, y) for x, y in zip(a, b))
        if isinstance(b, type):
            # (a class that could not be imported is written back as its (module, name) pair)
            return a == (b.__module__, b.__name__) or a is b
        return a == b
    check(same(got, wp), 'persistent reference changed by conflict resolution', fmt, got)
    kept = refs[st['kept_from_committed'][1]]
    check(kept[0] == fixed, 'reference taken from the committed state changed', kept)
    reached()


def h_connection(mode_sel: int, storage: str, with_sibling: bool) -> None:
    """Two connections modify the same resolvable object; the second commit merges; the writer then
    reads the merged state.  Failure modes fail the commit with nothing stored."""
    with untraced():
        import transaction
        import ZODB
        from ZODB.POSException import ConflictError
        env = T.Env()
        if storage == 'file':
            s = env.filestorage()
        else:
            s = ZODB.DemoStorage.DemoStorage(base=env.mappingstorage(), changes=env.filestorage())
        db = ZODB.DB(s)
        CR._unresolvable.clear()
        CR._class_cache.clear()
    mode = ['value', 'raise', 'conflict', 'noresolver'][choose(mode_sel, 4)]
    with untraced():
        pobj.PCounter.mode = 'value'
        pobj.PCounter.calls = []
        tm0 = transaction.TransactionManager()
        c0 = db.open(tm0)
        c0.root()['c'] = pobj.PCounter(10, 'base') if mode != 'noresolver' else pobj.PNoResolve(10)
        c0.root()['other'] = pobj.PObj(v=1)
        tm0.commit()
        tm1, tm2 = transaction.TransactionManager(), transaction.TransactionManager()
        c1, c2 = db.open(tm1), db.open(tm2)
        a, b = c1.root()['c'], c2.root()['c']
        a.n, b.n = a.n + 5, b.n + 20
        if mode != 'noresolver':
            a.tag, b.tag = 'A', 'B'
        if with_sibling:
            c2.root()['other'].v = 2
        tm1.commit()
        before = [B.mtxn_view(t) for t in __import__('zverif.graph', fromlist=['x']).model_from_storage(s).txns]
        pobj.PCounter.mode = mode if mode != 'noresolver' else 'value'
        pobj.PCounter.calls = []
        try:
            tm2.commit()
            ok = True
        except ConflictError:
            ok = False
            tm2.abort()
        pobj.PCounter.mode = 'value'
        note('mode', mode)
        if mode == 'value':
            check(ok, 'resolvable conflict failed the commit')
            check(len(pobj.PCounter.calls) == 1 and [d['n'] for d in pobj.PCounter.calls[0]] == [10, 15, 30]
                  and [d['tag'] for d in pobj.PCounter.calls[0]] == ['base', 'A', 'B'],
                  'resolver arguments are not (base, committed, new)', pobj.PCounter.calls)
            # the writer's connection discards its own copy and reads the merged state next
            check(b.n == 35 and b.tag == 'merge(base|A|B)', 'writer does not see the merged state after commit', b.n, b.tag)
            tm3 = transaction.TransactionManager()
            c3 = db.open(tm3)
            check(c3.root()['c'].n == 35, 'stored state is not the merge')
            if with_sibling:
                check(c3.root()['other'].v == 2, 'other object of the resolving transaction not stored')
        else:
            check(not ok, 'unresolvable conflict (%s) did not fail the commit' % mode)
            after = [B.mtxn_view(t) for t in __import__('zverif.graph', fromlist=['x']).model_from_storage(s).txns]
            check(after == before, 'failed commit stored something')
            # the conflicting connection invalidated its stale copy: a retry on fresh state succeeds
            b2 = c2.root()['c']
            check(b2.n == 15, 'stale copy kept after conflict', b2.n)
            b2.n += 20
            tm2.commit()
            tm3 = transaction.TransactionManager()
            check(db.open(tm3).root()['c'].n == 35, 'retry after conflict lost an update')
        db.close()
    reached()


HARNESSES = [
    Harness('resolve', h_resolve,
            decides='store() against a newer committed revision: the resolver gets exactly (writer\'s base, committed, new), '
                    'its result is what is stored and reported at vote; every failure mode raises ConflictError and stores nothing',
            symbolic='selector of the revision the writer started from (4 revisions), resolver outcome selector (7 modes incl. a resolver raising AttributeError), followed by a second, resolvable conflict',
            bounds='4 revisions; FileStorage and DemoStorage (base+changes) paths', oracle='recorded resolver arguments + merge arithmetic + battery',
            code=['tryToResolveConflict', 'ConflictResolution.state', 'find_global', 'FileStorage.store', 'DemoStorage.store/tpc_vote'],
            quick=dict(timeout=100, shards=shards(storage=['file', 'demo'], klass=['PCounter']) + shards(storage=['file'], klass=['PCounterNA'])),
            thorough=dict(timeout=300, shards=shards(storage=['file', 'demo'], klass=['PCounter', 'PCounterNA']))),
    Harness('undo_merge', _undo_merge,
            decides='undo path: two undos of one resolvable object in one transaction merge against the in-transaction state (see C06 multi_undo)',
            symbolic='two selectors over the transactions', bounds='scenario D (counter changed 4 times)', oracle='model_undo',
            code=['FileStorage._transactionalUndoRecord', '_undoDataInfo', 'tryToResolveConflict'],
            quick=dict(timeout=100, shards=shards(which=['D'])), thorough=dict(timeout=100, shards=shards(which=['D']))),
    Harness('refs', h_refs,
            decides='a persistent reference (any of 8 formats + 2 with a class that cannot be imported, any oid bytes) inside the writer\'s state is preserved exactly by the merge',
            symbolic='oid (8 free bytes), reference format selector', bounds='one symbolic reference (used twice in the state)',
            oracle='structural equality of the persistent id', pure_python=True,
            code=['tryToResolveConflict', 'PersistentReferenceFactory.persistent_load', 'PersistentReference.__init__', 'persistent_id'],
            quick=dict(timeout=150), thorough=dict(timeout=600)),
    Harness('connection', h_connection,
            decides='Connection level: the resolving writer re-reads the merged state; unresolvable conflicts fail the commit, '
                    'store nothing, invalidate the stale copy so that a retry succeeds',
            symbolic='resolver outcome selector (4 modes)', bounds='2 writers, 1 shared object (+ optional sibling object)',
            oracle='merge arithmetic; storage iteration before/after',
            code=['Connection.tpc_vote/_handle_serial', 'Connection._store_objects (ConflictError path)', 'Connection.tpc_finish'],
            quick=dict(timeout=100, shards=shards(storage=['file', 'demo'], with_sibling=[False, True])),
            thorough=dict(timeout=300, shards=shards(storage=['file', 'demo'], with_sibling=[False, True]))),
]

MANIFEST = dict(
    text='Bounded symbolic execution of tryToResolveConflict and the store paths that call it: base-revision and '
         'resolver-outcome selectors are solver variables; a persistent reference with 8 free oid bytes in a solver-chosen '
         'format is carried through the real unpickle-resolve-repickle pipeline and must come out identical; the '
         'Connection-level consequences (ghostify, failed commit, retry) are checked per outcome.',
    note='object states are concrete representatives (pickle boundary); the fully symbolic caller serial is in C03, the undo '
         'merge path in C06; pure-Python zodbpickle in the reference harness.',
    design_ref='DESIGN.md section 4, C10',
)
