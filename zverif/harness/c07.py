"""C07 - packing never changes what is observable at or after the pack time.

H-ARG: the pack time is 8 FREE BYTES (a clock token carries them through the real
FileStorage.pack / MappingStorage.pack, so "before, between, exactly at and after every
transaction" are path regions decided by the solver); gc on/off and the storage kind are
shards.  The real packer (fspack.GC, FileStoragePacker, PackCopier, referencesf) runs under
CrossHair.  Oracle: differential - every snapshot at or after the pack time, for every object
reachable from the root in that snapshot, answers identically before and after the pack and
after reopening; transactions after the pack time are still listed, iterable and undoable;
nothing is invented; packing again changes nothing.
"""
import sys

import ZODB.FileStorage  # noqa: F401
import ZODB.MappingStorage
import ZODB.TimeStamp

from zverif import battery as B
from zverif import graph as GR
from zverif import templates as T
from zverif.api import assume, check, fail, reached, untraced, choose, realize, note
from zverif.model.revstore import NoKey, RevStore
from zverif.spec import Harness, shards
from zverif.symenv import codec

codec.install()
F = sys.modules['ZODB.FileStorage.FileStorage']
DATA = '/db/Data.fs'
MAXTID = b'\x7f' + b'\xff' * 7

ASSUMPTIONS = [
    'the pack time enters as a clock token whose TimeStamp(...).raw() is the symbolic 8-byte stop id: the calendar '
    'conversion float -> TimeStamp is bypassed (not ZODB code); everything from `stop` on is the real code',
    'history G1 (zverif/graph.py): 9 transactions, 7 objects built through the real DB/Connection: garbage subtree, '
    'garbage cycle, undo record with a back-pointer across earlier transactions, an object written while unreachable',
    'reachability for the oracle is computed over the model history with ZODB.serialize.referencesf (its exactness is C14)',
    'pure-Python BTrees during symbolic execution',
]


class _Tok:
    """Clock token standing for a pack time whose stop id is the given (symbolic) bytes."""

    def __init__(self, stop):
        self.stop = stop

    def __mod__(self, k):
        return self


class _StopTS:
    def __init__(self, tok):
        self.tok = tok

    def raw(self):
        return self.tok.stop


class _TSDispatch:
    def __init__(self, real):
        self.real = real

    def __call__(self, *a):
        for x in a:
            if isinstance(x, _Tok):
                return _StopTS(x)
        return self.real(*a)

    def __getattr__(self, n):
        return getattr(self.real, n)


class _PackClock:
    def __init__(self, base):
        self.base = base

    def gmtime(self, t=None):
        if isinstance(t, _Tok):
            return (0,) * 9
        return self.base.gmtime(t)

    def __getattr__(self, n):
        return getattr(self.base, n)


class _patched_time:
    """Make pack(t) accept a token in FileStorage / MappingStorage."""

    def __enter__(self):
        import ZODB.MappingStorage as MS
        self.saved = (F.time, F.TimeStamp, MS.time, ZODB.TimeStamp.TimeStamp)
        F.time = _PackClock(F.time)
        F.TimeStamp = _TSDispatch(F.TimeStamp)
        MS.time = _PackClock(MS.time)
        ZODB.TimeStamp.TimeStamp = _TSDispatch(ZODB.TimeStamp.TimeStamp)
        return self

    def __exit__(self, *a):
        import ZODB.MappingStorage as MS
        F.time, F.TimeStamp, MS.time, ZODB.TimeStamp.TimeStamp = self.saved
        return False


def _bounds(m):
    out = []
    for t in m.txns:
        for b in B.neighbours(t.tid):
            if b not in out:
                out.append(b)
    out.append(MAXTID)
    return out


def _post_answers(s, o, q):
    try:
        return s.loadBefore(o, q)
    except KeyError:
        return 'nokey'


def _pre_answers(m, o, q):
    try:
        return m.load_before(o, q)
    except NoKey:
        return 'nokey'


def differential(pre, s, stop, gc, what):
    """Everything observable at or after the pack time is as before (pre = model before the pack)."""
    from ZODB.utils import load_current
    all_oids = pre.oids()
    for q in _bounds(pre):
        if not (q > stop):                 # snapshot older than the pack time: no promise
            continue
        with untraced():
            state = GR.state_at(pre, q)
            keep = GR.reachable(state) if gc else set(o for o in all_oids if state.get(o) is not None)
            for o in sorted(keep):
                want = _pre_answers(pre, o, q)
                got = _post_answers(s, o, q)
                check(got == want, 'loadBefore of a reachable object changed by pack (%s)' % what, o, q, got, want)
                if want not in (None, 'nokey'):
                    try:
                        d = s.loadSerial(o, want[1])
                    except KeyError:
                        d = 'nokey'
                    check(d == want[0], 'loadSerial of a revision visible after the pack time changed (%s)' % what, o, want[1])
                    # no dangling references from a reachable object
                    for ref in GR.references(want[0]):
                        check(_post_answers(s, ref, q) not in (None, 'nokey') or state.get(ref) is None,
                              'reachable object refers to an object the pack removed (%s)' % what, o, ref, q)
    with untraced():
        post = GR.model_from_storage(s)
        pre_by = dict((t.tid, t) for t in pre.txns)
        for t in post.txns:
            check(t.tid in pre_by, 'pack invented a transaction', t.tid)
            p = pre_by[t.tid]
            for r in t.records:
                check(any(r.oid == r0.oid and r.data == r0.data for r0 in p.records),
                      'pack invented or altered a record', t.tid, r.oid)
    post_by = dict((t.tid, t) for t in post.txns)
    for t in pre.txns:
        if t.tid > stop:
            with untraced():
                check(t.tid in post_by, 'transaction after the pack time is no longer listed (%s)' % what, t.tid)
                g = post_by[t.tid]
                check((g.user, g.desc, g.ext, g.status) == (t.user, t.desc, t.ext, t.status)
                      and [(r.oid, r.data) for r in g.records] == [(r.oid, r.data) for r in t.records],
                      'transaction after the pack time iterates differently (%s)' % what, t.tid)
    if hasattr(s, 'undoLog'):
        with untraced():
            import base64
            log = [base64.decodebytes(d['id'] + b'\n') for d in s.undoLog(0, -100)]
        for t in pre.txns:
            if t.tid > stop and t.status == ' ':
                check(t.tid in log, 'transaction after the pack time no longer in the undo log (%s)' % what, t.tid)
    with untraced():
        check(s.lastTransaction() == pre.last_tid(), 'lastTransaction changed by pack')
    return post


def h_pack_file(stop: bytes, gc: bool, variant: str, reopen: bool) -> None:
    assume(len(stop) == 8)
    assume(stop != b'\0' * 8)
    with untraced():
        from ZODB.serialize import referencesf
        env = T.Env()
        g = GR.G(env).build(variant)
        s = g.s
        g.close()
        pre = GR.model_from_storage(s)
        s._file.flush()
        pre_bytes = bytes(env.fs.content(DATA))
    with _patched_time():
        s.pack(_Tok(stop), referencesf, gc=gc)            # the real packer, traced, symbolic stop
        with untraced():
            packed = bytes(env.fs.content(DATA))
            note('shrunk', len(packed) < len(pre_bytes))
        differential(pre, s, stop, gc, 'after pack')
        # packing again to the same time: no-op or refused
        try:
            s.pack(_Tok(stop), referencesf, gc=gc)
        except Exception as ex:
            note('repack', type(ex).__name__)
        with untraced():
            check(bytes(env.fs.content(DATA)) == packed, 'second pack to the same time changed the file')
    with untraced():
        # ... and to an earlier time
        try:
            s.pack(1.0, referencesf, gc=gc)
        except Exception as ex:
            note('repack_early', type(ex).__name__)
        check(bytes(env.fs.content(DATA)) == packed, 'pack to an earlier time changed the file')
    if reopen:
        with untraced():
            s.close()
            s = env.filestorage()
        differential(pre, s, stop, gc, 'after reopen')
    # transactions after the pack time are still undoable: undo the newest one
    last = pre.txns[-1]
    if last.tid > stop:
        with untraced():
            import base64
            t = T.meta(b'u', b'undo after pack')
            s.tpc_begin(t)
            s.undo(base64.encodebytes(last.tid).rstrip(), t)
            s.tpc_vote(t)
            s.tpc_finish(t)
            from ZODB.utils import load_current
            for r in last.written():
                want = pre.state_before(r.oid, last.tid)
                try:
                    got = load_current(s, r.oid)[0]
                except KeyError:
                    got = None
                check(got == want, 'undo of a post-pack transaction after the pack gives a wrong state', r.oid)
    with untraced():
        s.close()
    reached()


def h_pack_mapping(stop: bytes, gc: bool) -> None:
    assume(len(stop) == 8)
    assume(stop != b'\0' * 8)
    with untraced():
        from ZODB.serialize import referencesf
        env = T.Env()
        s = env.mappingstorage()
        g = GR.G(env, storage=s).build('G0')
        g.close()
        pre = GR.model_from_storage(s)
    with _patched_time():
        s.pack(_Tok(stop), referencesf, gc=gc)
        differential(pre, s, stop, gc, 'after pack')
        try:
            s.pack(_Tok(stop), referencesf, gc=gc)
        except ValueError:
            pass
        differential(pre, s, stop, gc, 'after second pack')
    reached()


def h_pack_empty(stop: bytes) -> None:
    """Packing an empty database changes nothing."""
    assume(len(stop) == 8)
    assume(stop != b'\0' * 8)
    with untraced():
        from ZODB.serialize import referencesf
        env = T.Env()
        s = env.filestorage()
        s._file.flush()
        before = env.fs.snapshot('/db')
    with _patched_time():
        s.pack(_Tok(stop), referencesf)
    with untraced():
        s._file.flush()
        check(env.fs.snapshot('/db') == before, 'pack of an empty database changed a file')
        ms = env.mappingstorage()
    with _patched_time():
        ms.pack(_Tok(stop), referencesf)
    reached()


def h_commit_during_pack(at1: int, at2: int) -> None:
    """A commit made while a pack to "now" (a time after everything present at its start) is running is still there
    afterwards: every transaction after the pack time is still listed, iterable and loadable (C08's pack_race harness, shard
    late=True; imported lazily because C08 builds on this module's oracle)."""
    from zverif.harness import c08
    c08.h_pack_race(at1, at2, 1, 'commit', True)


from zverif.harness.c13 import h_directed_undo_pack as _blob_undo_pack  # noqa: E402

HARNESSES = [
    Harness('pack_file', h_pack_file,
            decides='FileStorage.pack to any time: all snapshots at/after it identical for reachable objects (data, revision '
                    'ids, next-revision ids, loadSerial), no dangling references, later transactions listed/iterable/'
                    'undoable, nothing invented, repeat/earlier pack is a no-op, same after reopen',
            symbolic='stop (pack time as 8 free bytes)', bounds='histories G1 (9 txns, 7 objects), G0 (no undo record), G2 (back-pointer chains: change/undo/change/undo), G3 (object unlinked and modified in one transaction, resurrected by a later undo), G4 (an undo transaction with two records of one object, pointed back at by a later undo), G5 (an object that is garbage for a while and linked back in by an undo of its holder); gc on/off',
            oracle='differential against the pre-pack model + reachability over the model', pure_python=True,
            code=['FileStorage.pack', 'fspack.GC.findReachable/findReachableAtPacktime/findReachableFromFuture/findrefs',
                  'FileStoragePacker.pack/copyToPacktime/copyDataRecords/copyRest/copyOne', 'PackCopier', 'serialize.referencesf',
                  '_redundant_pack'],
            quick=dict(timeout=170, shards=shards(gc=[True, False], variant=['G1'], reopen=[True]) + shards(gc=[True], variant=['G2', 'G3', 'G4', 'G5', 'G6'], reopen=[False])),
            thorough=dict(timeout=900, shards=shards(gc=[True, False], variant=['G1', 'G0', 'G2', 'G3', 'G4', 'G5', 'G6'], reopen=[True, False]))),
    Harness('blob_undo_pack', _blob_undo_pack,
            decides='FileStorage with a blob directory: write/commit/undo chains (incl. one undo transaction undoing the two newest '
                    'transactions of a blob: two records that share one file) followed by a pack to now or to an earlier time - every '
                    'revision the pack keeps still has its blob file with the bytes committed (C13 directed_undo_pack)',
            symbolic='4 booleans (undo / further write / second undo / double undo), second-blob selector, final step selector', bounds='programs of 5-11 steps; real scratch directory',
            oracle='blob revision model', code=['fspack.FileStoragePacker.copyDataRecords (blob branch)', 'FileStorage._remove_blob_files_tagged_for_removal_during_pack'],
            quick=dict(timeout=400, shards=shards(kind=['file'])), thorough=dict(timeout=700, shards=shards(kind=['file', 'proxy']))),
    Harness('pack_mapping', h_pack_mapping,
            decides='MappingStorage.pack to any time preserves every snapshot at/after it for reachable objects; repeat pack harmless',
            symbolic='stop (8 free bytes)', bounds='history G0 (8 txns)', oracle='differential against the pre-pack model', pure_python=True,
            code=['MappingStorage.pack', 'TransactionRecord.pack'],
            quick=dict(timeout=170, shards=shards(gc=[True, False])),
            thorough=dict(timeout=600, shards=shards(gc=[True, False]))),
    Harness('pack_empty', h_pack_empty,
            decides='packing an empty database changes nothing', symbolic='stop (8 free bytes)', bounds='-', oracle='directory image',
            code=['FileStorage.pack', 'MappingStorage.pack'],
            quick=dict(timeout=60), thorough=dict(timeout=60)),
    Harness('commit_during_pack', h_commit_during_pack,
            decides='a commit injected at any lock operation / file-system call of a pack whose pack time lies after everything present '
                    'at its start is listed, iterable and loadable afterwards and after reopen (C07 differential oracle)',
            symbolic='injection point of the commit', bounds='history G1; one injected commit', oracle='differential (before / after)',
            code=['FileStoragePacker.pack (catch-up phase: file_end, copyRest)', 'FileStorage.pack'],
            quick=dict(timeout=100, shards=shards()), thorough=dict(timeout=300, shards=shards())),
]

MANIFEST = dict(
    text='Bounded symbolic execution of the real packers with the pack time as 8 free bytes: CrossHair runs '
         'fspack.GC/FileStoragePacker/PackCopier (and MappingStorage.pack) once per region of the pack time relative to the '
         'history\'s transactions, and a differential oracle compares every snapshot at or after the pack time, for every '
         'object reachable then, before/after the pack and after reopen; plus iteration/undo of later transactions, no '
         'invented data, no dangling references, idempotence.',
    note='graph histories G1/G0/G2/G3 built through the real DB layer; object graph <= 7 objects; one injected commit for commit_during_pack; custom packer hooks and '
         'blob packing (C13) not covered here; float->TimeStamp conversion of the pack time bypassed.',
    design_ref='DESIGN.md section 4, C07',
)
