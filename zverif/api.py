"""Small API the harnesses are written against.

A harness is an ordinary function with annotated (symbolic) parameters.  It
constrains them with `assume`, drives the real ZODB code, and states the
property with `check`/`fail`.  The same function runs symbolically in
zverif.worker (CrossHair supplies proxies, z3 decides every branch) and
concretely in zverif.replay (plain values, C extensions on).
"""
import contextlib

try:                                    # replay may run without crosshair importable
    from crosshair.tracers import NoTracing as _NoTracing, ResumedTracing as _ResumedTracing, is_tracing
    from crosshair.util import IgnoreAttempt
    from crosshair.core import realize as _realize, deep_realize as _deep_realize
    from crosshair.statespace import optional_context_statespace
    HAVE_CH = True
except Exception:                        # pragma: no cover
    HAVE_CH = False

    class IgnoreAttempt(Exception):
        pass

    def is_tracing():
        return False

    def optional_context_statespace():
        return None


class PropertyViolation(Exception):
    """Raised by a harness when the property under check is observed to fail."""


class HarnessError(Exception):
    """The harness itself (not the code under test) is in a state it cannot judge."""


class Stats:
    checks = 0          # assertions evaluated on the current path
    reached = False     # harness called reached(): end-of-harness reachability witness
    notes = None        # per-path notes (dict) a harness may leave for evidence


def _reset_path_stats():
    Stats.checks = 0
    Stats.reached = False
    Stats.notes = {}


def symbolic_run():
    """True while a CrossHair state space is active (worker), False in replay."""
    return HAVE_CH and optional_context_statespace() is not None


@contextlib.contextmanager
def untraced():
    """Run concrete set-up at native speed (no symbolic values may be touched inside)."""
    if HAVE_CH and is_tracing():
        with _NoTracing():
            yield
    else:
        yield


@contextlib.contextmanager
def traced():
    """Re-enable tracing inside an `untraced` block for a decision on symbolic values."""
    if symbolic_run() and not is_tracing():
        with _ResumedTracing():
            yield
    else:
        yield


def assume(cond):
    """Precondition: abandon this path (not a failure) when cond is false."""
    if not cond:
        raise IgnoreAttempt("assume")


def check(cond, msg, *detail):
    Stats.checks += 1
    if not cond:
        fail(msg, *detail)


def fail(msg, *detail):
    if detail:
        try:
            msg = msg + ' :: ' + ' | '.join(_short(d) for d in detail)
        except Exception:
            pass
    raise PropertyViolation(msg)


def reached():
    Stats.reached = True


def note(key, value=True):
    if Stats.notes is not None:
        Stats.notes[key] = value


def _short(d, n=300):
    if symbolic_run():
        with untraced():
            try:
                d = _deep_realize(d)
            except Exception:
                return '<symbolic>'
    s = repr(d)
    return s if len(s) <= n else s[:n] + '...'


def realize(v):
    """Concretise v (the solver picks a value; other values are explored on other paths)."""
    if symbolic_run():
        if is_tracing():
            return _realize(v)
        with _ResumedTracing():
            return _realize(v)
    return v


def decide(cond):
    """Evaluate a (possibly symbolic) condition to a concrete bool, forking if needed.
    `cond` is a zero-argument callable so that the comparison itself is evaluated with the
    tracer on; usable from inside `untraced()` blocks."""
    if symbolic_run() and not is_tracing():
        with _ResumedTracing():
            return True if cond() else False
    return True if cond() else False


def choose(sym, n):
    """Turn a symbolic int constrained to range(n) into a concrete index by forking."""
    if not symbolic_run():
        if not (0 <= sym < n):
            raise IgnoreAttempt("choose out of range")
        return int(sym)
    with traced():
        for i in range(n):
            if sym == i:
                return i
    raise IgnoreAttempt("choose out of range")


def pick(sym, lo, hi):
    """Concrete value of a symbolic int constrained to [lo, hi): binary search with traced
    comparisons (O(log n) decisions per path; the solver enumerates the feasible values)."""
    if not symbolic_run():
        if not (lo <= sym < hi):
            raise IgnoreAttempt('pick out of range')
        return int(sym)
    with traced():
        if not (lo <= sym < hi):
            raise IgnoreAttempt('pick out of range')
        while hi - lo > 1:
            mid = (lo + hi) // 2
            if sym < mid:
                hi = mid
            else:
                lo = mid
    return lo
