"""Symbolic exploration of ONE harness shard (runs in its own process).

Usage: python -m zverif.worker <module> <harness> <tier> <shard-index> <out.json>

The loop below is CrossHair's `explore_paths` (crosshair/core.py) with
bookkeeping added: CrossHair re-executes the harness once per feasible path,
z3 decides every branch on a symbolic value, and the search tree reports when
every path has been explored ("exhausted").  We record per-path verdicts, the
z3 queries and their time, the /repo/src functions executed, and - on a failing
path - the concrete values z3 assigns to the harness arguments.
"""
import importlib
import inspect
import json
import os
import sys
import time
import traceback


def _jsonable(v):
    if isinstance(v, (bytes, bytearray)):
        return {'__bytes__': bytes(v).hex()}
    if isinstance(v, bool) or v is None or isinstance(v, (int, str, float)):
        return v
    if isinstance(v, (list, tuple)):
        return [_jsonable(x) for x in v]
    if isinstance(v, dict):
        return {str(k): _jsonable(x) for k, x in v.items()}
    return repr(v)


def unjson(v):
    if isinstance(v, dict) and '__bytes__' in v:
        return bytes.fromhex(v['__bytes__'])
    if isinstance(v, list):
        return [unjson(x) for x in v]
    if isinstance(v, dict):
        return {k: unjson(x) for k, x in v.items()}
    return v


class FnCoverage:
    """Which functions of /repo/src ran, split by whether the CrossHair tracer was on."""
    TOOL = 3

    def __init__(self):
        self.traced = set()
        self.untraced = set()
        self.on = False

    def start(self):
        mon = sys.monitoring
        try:
            mon.use_tool_id(self.TOOL, 'zverif')
        except ValueError:
            return
        from crosshair.tracers import is_tracing
        DIS = mon.DISABLE

        def cb(code, off):
            fn = code.co_filename
            if fn.startswith('/repo/src/'):
                key = fn[len('/repo/src/'):] + ':' + code.co_qualname
                if is_tracing():
                    self.traced.add(key)
                    return DIS
                self.untraced.add(key)
                return None          # keep listening: may run traced later
            return DIS
        mon.register_callback(self.TOOL, mon.events.PY_START, cb)
        mon.set_events(self.TOOL, mon.events.PY_START)
        self.on = True


class SolverStats:
    queries = 0
    seconds = 0.0
    unknown = 0
    results = {}

    @classmethod
    def install(cls):
        import z3
        orig = z3.Solver.check

        def check(self, *a):
            t0 = time.perf_counter()
            r = orig(self, *a)
            cls.seconds += time.perf_counter() - t0
            cls.queries += 1
            k = str(r)
            cls.results[k] = cls.results.get(k, 0) + 1
            return r
        z3.Solver.check = check


def explore(hspec, tier, shard_index):
    from crosshair.condition_parser import condition_parser
    from crosshair.core import (ExceptionFilter, Patched, deep_realize, gen_args)
    from crosshair.copyext import CopyMode, deepcopyext
    from crosshair.options import DEFAULT_OPTIONS
    from crosshair.statespace import (CallAnalysis, RootNode, StateSpace, StateSpaceContext,
                                      VerificationStatus)
    from crosshair.tracers import COMPOSITE_TRACER, NoTracing, ResumedTracing
    from crosshair.util import IgnoreAttempt, NotDeterministic, UnexploredPath
    import crosshair.core_and_libs  # noqa: registers library patches / opcode patches
    from zverif import api

    cfg = hspec.tier(tier)
    shard = dict(cfg['shards'][shard_index])
    opts = {k: shard.pop(k) for k in list(shard) if k.startswith('_')}     # per-shard options, e.g. _timeout
    cfg.update({k[1:]: v for k, v in opts.items()})
    fn = hspec.fn
    sig = inspect.signature(fn)
    sym_params = [p for n, p in sig.parameters.items() if n not in shard]
    sym_sig = sig.replace(parameters=sym_params)
    timeout = float(os.environ.get('ZVERIF_TIMEOUT_SCALE', '1')) * cfg.get('timeout', 60)
    per_path = cfg.get('per_path_timeout', 60)
    max_iter = cfg.get('max_paths', 1 << 30)

    cov = FnCoverage()
    cov.start()
    SolverStats.install()

    search_root = RootNode()
    res = dict(harness=hspec.name, shard=_jsonable(shard), tier=tier, paths=0, confirmed=0, ignored=0,
               unknown=0, failing=0, reached=0, checks=0, exhausted=False, verdict='UNKNOWN',
               counterexample=None, unknown_reasons={}, samples=[], notes={})
    t_start = time.monotonic()
    deadline = t_start + timeout
    nsamples = cfg.get('samples', 6)
    while res['paths'] < max_iter:
        if time.monotonic() > deadline:
            res['stopped'] = 'timeout %.0fs' % timeout
            break
        res['paths'] += 1
        itr_start = time.process_time()
        space = StateSpace(execution_deadline=itr_start + per_path, model_check_timeout=per_path / 2,
                           search_root=search_root)
        breakout = False
        with condition_parser(DEFAULT_OPTIONS.analysis_kind), Patched(), COMPOSITE_TRACER, NoTracing(), \
                StateSpaceContext(space):
            status = None
            try:
                pre_args = gen_args(sym_sig)
                args = deepcopyext(pre_args, CopyMode.REGULAR, {})
                api._reset_path_stats()
                with ExceptionFilter() as efilter, ResumedTracing():
                    fn(**shard, **args.arguments)
                if efilter.ignore:
                    res['ignored'] += 1
                    status = None
                elif efilter.user_exc:
                    exc = efilter.user_exc[0]
                    if isinstance(exc, NotDeterministic):
                        raise NotDeterministic
                    # failing path: concretise the arguments with the solver's model
                    try:
                        with ResumedTracing():
                            space.detach_path()
                            concrete = deep_realize(pre_args)
                        cargs = {k: _jsonable(v) for k, v in concrete.arguments.items()}
                    except Exception as e2:  # could not realise: report as unknown
                        cargs = None
                        res['unknown_reasons']['realize:' + type(e2).__name__] = 1
                    kind = 'violation' if isinstance(exc, api.PropertyViolation) else 'exception'
                    try:
                        msg = str(exc)
                    except Exception:
                        msg = ''
                    if kind == 'exception':
                        msg = ('%s: %s' % (type(exc).__name__, msg)).rstrip(': ')
                    res['failing'] += 1
                    res['counterexample'] = dict(kind=kind, exc_type=type(exc).__name__, message=msg[:2000],
                                                 args=cargs, fixed=_jsonable(shard),
                                                 stack=''.join(traceback.format_list(efilter.user_exc[1][-12:]))[-4000:])
                    status = VerificationStatus.REFUTED
                    breakout = True
                else:
                    res['confirmed'] += 1
                    res['checks'] += api.Stats.checks
                    if api.Stats.reached:
                        res['reached'] += 1
                    for k, v in (api.Stats.notes or {}).items():
                        key = '%s=%s' % (k, v)
                        res['notes'][key] = res['notes'].get(key, 0) + 1
                    if len(res['samples']) < nsamples and api.Stats.reached:
                        try:
                            with ResumedTracing():
                                space.detach_path()
                                concrete = deep_realize(pre_args)
                            res['samples'].append({k: _jsonable(v) for k, v in concrete.arguments.items()})
                        except Exception:
                            pass
                    status = VerificationStatus.CONFIRMED
            except IgnoreAttempt:
                res['ignored'] += 1
                status = None
            except UnexploredPath as e:
                res['unknown'] += 1
                k = type(e).__name__
                res['unknown_reasons'][k] = res['unknown_reasons'].get(k, 0) + 1
                status = VerificationStatus.UNKNOWN
            except NotDeterministic:
                res['verdict'] = 'NONDETERMINISTIC'
                res['error'] = traceback.format_exc()[-3000:]
                break
            _analysis, exhausted = space.bubble_status(CallAnalysis(status))
        if breakout:
            break
        if exhausted:
            res['exhausted'] = True
            break
    if res['verdict'] != 'NONDETERMINISTIC':
        if res['failing']:
            res['verdict'] = 'REFUTED'
        elif res['exhausted'] and res['unknown'] == 0:
            res['verdict'] = 'CONFIRMED'
        else:
            res['verdict'] = 'UNKNOWN'
    res['wall_s'] = round(time.monotonic() - t_start, 3)
    res['z3_queries'] = SolverStats.queries
    res['z3_seconds'] = round(SolverStats.seconds, 3)
    res['z3_results'] = SolverStats.results
    res['functions_traced'] = sorted(cov.traced)
    res['functions_untraced'] = sorted(cov.untraced - cov.traced)
    return res


def main(argv):
    modname, hname, tier, shard_index, out = argv
    try:
        import logging
        logging.disable(logging.CRITICAL)
        import warnings
        warnings.simplefilter('ignore')
        mod = importlib.import_module(modname)
        hspec = [h for h in mod.HARNESSES if h.name == hname][0]
        res = explore(hspec, tier, int(shard_index))
    except BaseException:
        res = dict(harness=hname, shard=int(shard_index), verdict='ERROR', error=traceback.format_exc()[-6000:])
    with open(out, 'w') as f:
        json.dump(res, f)


if __name__ == '__main__':
    main(sys.argv[1:])
