#!/usr/bin/env python3
"""Assembles DESIGN.md from notes/design/*.md, filling the generated blocks: the cost table (from evidence/*.json), the
table of repaired defects (from known_findings.jsonl) and the round-2 seeding summary (from seeded/*/meta.json)."""
import glob
import json
import os
import re

ROOT = os.path.dirname(os.path.abspath(__file__))


def cost_table():
    rows = ['| property | harnesses | shards (tier of the committed evidence: quick) | confirmed over all paths | bounded, not exhaustive | paths | z3 queries | wall s |',
            '|---|---|---|---|---|---|---|---|']
    for i in range(1, 21):
        pid = 'C%02d' % i
        p = os.path.join(ROOT, 'evidence', pid + '.json')
        if not os.path.exists(p):
            continue
        e = json.load(open(p))
        c = e['coverage']
        hs = c.get('harnesses') or []
        sh = [x for h in hs for x in (h.get('shards') or [])]
        conf = sum(1 for x in sh if x.get('verdict') == 'CONFIRMED')
        unk = len(sh) - conf
        paths = sum(x.get('paths') or 0 for x in sh)
        rows.append('| %s | %d | %d | %d | %d | %d | %d | %s |' % (pid, len(hs), len(sh), conf, unk, paths, c.get('z3_queries') or 0, e.get('wall_s', '?')))
    return '\n'.join(rows)


def findings_table():
    rows = ['| # | property | fix commit | what failed on the unmodified code | found by |', '|---|---|---|---|---|']
    n = 0
    for line in open(os.path.join(ROOT, 'known_findings.jsonl')):
        line = line.strip()
        if not line or line.startswith('#'):
            continue
        d = json.loads(line)
        if d['status'] != 'fixed':
            continue
        n += 1
        txt = re.sub(r'^fixed: property=\S+ \S+ ', '', d['text']).replace('|', '/')
        rows.append('| %d | %s | `%s` | %s | %s |' % (n, d['property'], d['commit'], txt[:300] + ('...' if len(txt) > 300 else ''),
                                                    (d.get('found_by') or '').replace('|', '/')))
    return '\n'.join(rows)


def round2(pat='*-r*'):
    tot = own = other = 0
    missed = []
    for mp in sorted(glob.glob(os.path.join(ROOT, 'seeded', pat, 'meta.json'))):
        m = json.load(open(mp))
        tot += 1
        if m.get('caught'):
            own += 1
        elif m.get('caught_by_other'):
            other += 1
        else:
            missed.append(m['seed'])
    if not tot:
        return 'not run yet.'
    return ('%d changes confirmed and run: %d caught by the property\'s own quick check, %d only by another property\'s check, '
            '%d missed%s.' % (tot, own, other, len(missed), (' (' + ', '.join(missed) + ')') if missed else ''))


def main():
    parts = [open(p).read() for p in sorted(glob.glob(os.path.join(ROOT, 'notes', 'design', '*.md')))]
    s = ''.join(parts)
    ents = [json.loads(l) for l in open(os.path.join(ROOT, 'known_findings.jsonl')) if l.strip() and not l.startswith('#')]
    nfixed = sum(1 for e in ents if e['status'] == 'fixed')
    nopen = sum(1 for e in ents if e['status'] == 'open')
    nh = sum(1 for l in open(os.path.join(ROOT, 'HARNESSES.md')) if l.startswith('### '))
    s = s.replace('@@TABLE@@', cost_table()).replace('@@FINDINGS@@', findings_table()).replace('@@ROUND2@@', round2()).replace('@@ROUND3@@', round2('*-s[0-9]'))
    s = s.replace('@@NFIXED@@', str(nfixed)).replace('@@NOPEN@@', str(nopen)).replace('@@NHARNESS@@', str(nh))
    open(os.path.join(ROOT, 'DESIGN.md'), 'w').write(s)
    print('DESIGN.md: %d lines' % s.count('\n'))


if __name__ == '__main__':
    main()
