#!/bin/sh
# development helper: run a check against the clean scratch worktree /tmp/wt-dev instead of /repo
# (used while seeded changes are being applied to /repo by tools_seeded.py)
cd /verif && ZVERIF_EVIDENCE_DIR=/tmp/zverif-dev-evidence ZVERIF_SRC=/tmp/wt-dev/src PYTHONPATH=/tmp/wt-dev/src:/verif exec .venv/bin/python -m zverif.engine "$@"
