#!/bin/sh
# Build the overlay venv the checks run in: /venv's packages (the repo's own
# environment, ZODB editable -> /repo/src) + crosshair-tool/z3-solver from the
# offline wheelhouse.  Idempotent; nothing is fetched.
set -e
cd "$(dirname "$0")"
V="$(pwd)/.venv"
if [ ! -x "$V/bin/python" ] || ! "$V/bin/python" -c "import crosshair, z3" 2>/dev/null; then
    rm -rf "$V"
    /venv/bin/python -m venv "$V"
    SP=$("$V/bin/python" -c "import sysconfig; print(sysconfig.get_paths()['purelib'])")
    echo "import site; site.addsitedir('/venv/lib/python3.12/site-packages')" > "$SP/_base.pth"
    PIP_NO_INDEX=1 "$V/bin/pip" install -q --no-index --find-links /opt/veriftools/wheels crosshair-tool z3-solver
fi
"$V/bin/python" - <<'PY'
import crosshair, z3, ZODB, sys
from importlib.metadata import version
assert version('crosshair-tool') == '0.0.110', version('crosshair-tool')
assert ZODB.__file__.startswith('/repo/src/'), ZODB.__file__
print('setup ok: crosshair', version('crosshair-tool'), 'z3', z3.get_version_string(), 'ZODB', ZODB.__file__)
PY
