#!/usr/bin/env python3
"""Writes seeded/INDEX.md from the meta.json files that tools_seeded.py leaves in seeded/<id>/."""
import json
import os
import re

ROOT = os.path.dirname(os.path.abspath(__file__))
SD = os.path.join(ROOT, 'seeded')


def main():
    rows = []
    for sid in sorted(os.listdir(SD)):
        mp = os.path.join(SD, sid, 'meta.json')
        if not os.path.exists(mp):
            continue
        m = json.load(open(mp))
        patch = open(os.path.join(SD, sid, 'patch.diff')).read()
        files = sorted(set(re.findall(r'^\+\+\+ b/(\S+)', patch, re.M)))
        title = ''
        np_ = os.path.join(SD, sid, 'notes.md')
        if os.path.exists(np_):
            first = open(np_).readline().strip().lstrip('# ').strip()
            title = re.sub(r'^%s:?\s*' % re.escape(sid), '', first)
        hs = []
        for line in m.get('check_output', []):
            mm = re.match(r'\s*harness=(\S+)', line)
            if mm and mm.group(1) not in hs:
                hs.append(mm.group(1))
        if m.get('caught'):
            verdict = 'caught by %s (%s)' % (m['property'], ', '.join(hs) or '?')
        elif m.get('caught_by_other'):
            verdict = 'not by %s; caught by %s' % (m['property'], m['caught_by_other'])
        else:
            verdict = 'MISSED'
        fn = os.path.join(SD, sid, 'final_note.txt')
        if os.path.exists(fn):
            verdict += ' [' + open(fn).read().strip() + ']'
        rows.append((sid, ', '.join(f.replace('src/ZODB/', '') for f in files), title, verdict, m.get('check_wall_s'), m.get('at', '')))
    out = ['# Seeded changes (written by independent sub-agents; confirmed and run here by tools_seeded.py)', '',
           'Each directory holds patch.diff (never committed to /repo), demo.py (exits 0 on the unchanged tree, non-zero with the',
           'change), notes.md (the sub-agent\'s description) and meta.json (suite result with the change, demo results, the',
           'registered quick check\'s exit code and VIOLATION lines when run against the change).  `<id>-N` = round 1, `<id>-rN` = round 2, `<id>-sN` = round 3 (a `check_cmd` with `--only <harness>` means the re-run after strengthening selected that harness of the quick check).', '',
           '| seed | file(s) | change | quick check | wall s |', '|---|---|---|---|---|']
    for sid, files, title, verdict, wall, at in rows:
        out.append('| %s | %s | %s | %s | %s |' % (sid, files, title.replace('|', '/'), verdict, wall))
    n = len(rows)
    c = sum(1 for r in rows if r[3].startswith('caught'))
    o = sum(1 for r in rows if 'caught by' in r[3] and not r[3].startswith('caught'))
    out += ['', '%d seeded changes: %d caught by the property\'s own quick check, %d only by another property\'s check, %d missed.' % (n, c, o, n - c - o), '']
    with open(os.path.join(SD, 'INDEX.md'), 'w') as f:
        f.write('\n'.join(out) + '\n')
    print('INDEX.md: %d seeds, %d caught, %d by other, %d missed' % (n, c, o, n - c - o))


if __name__ == '__main__':
    main()
