import sys, vfs, logging, errno; logging.disable(logging.CRITICAL)
from ZODB.FileStorage import FileStorage
from ZODB.Connection import TransactionMetaData
from ZODB.utils import p64, u64, z64, load_current
from crosshair import NoTracing, ResumedTracing

class Fault:
    def __init__(self, f): self.f = f; self.n = 0; self.armed = False
FAULT = None
_ow = vfs.VFile.write
def fwrite(self, b):
    F = FAULT
    if F is not None and F.armed and self.name == '/Data.fs':
        i = F.n; F.n += 1
        with ResumedTracing():
            hit = (i == F.f)
        if hit:
            F.armed = False
            raise OSError(errno.ENOSPC, 'No space left on device')
    return _ow(self, b)
vfs.VFile.write = fwrite

def fault(f: int) -> bool:
    """
    pre: 0 <= f
    post: _
    """
    global FAULT
    FAULT = Fault(f)
    with NoTracing():
        v = vfs.VFS(); vfs.install(v); vfs.install_clock(vfs.FakeTime())
        fs = FileStorage('/Data.fs')
        t = TransactionMetaData()
        fs.tpc_begin(t); fs.store(p64(1), z64, b'first', '', t); fs.tpc_vote(t); tid1 = fs.tpc_finish(t)
        before = v.files['/Data.fs']
        t = TransactionMetaData(b'u', b'd')
        fs.tpc_begin(t); fs.store(p64(1), tid1, b'second', '', t); fs.store(p64(2), z64, b'x', '', t)
        FAULT.armed = True
        failed = False
        try:
            fs.tpc_vote(t)
        except OSError:
            failed = True
        FAULT.armed = False
        if not failed:
            fs.tpc_abort(t)
            return v.files['/Data.fs'] == before
        fs.tpc_abort(t)
        ok = v.files['/Data.fs'] == before and load_current(fs, p64(1)) == (b'first', tid1)
        # next transaction must work
        t = TransactionMetaData()
        fs.tpc_begin(t); fs.store(p64(1), tid1, b'third', '', t); fs.tpc_vote(t); tid3 = fs.tpc_finish(t)
        ok = ok and load_current(fs, p64(1)) == (b'third', tid3)
        return ok
