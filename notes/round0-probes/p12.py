import sys, vfs, zpatch, logging; logging.disable(logging.CRITICAL)
import ZODB.BaseStorage as B, ZODB.utils as U
from ZODB.FileStorage import FileStorage
from ZODB.Connection import TransactionMetaData
from ZODB.utils import p64, u64, z64
from crosshair import NoTracing
import struct

class Now:
    def __init__(self, raw): self.raw = raw
    def __mod__(self, k): return self
class SymTS:
    def __init__(self, *a):
        if len(a) == 1:
            self._raw = a[0] if isinstance(a[0], int) else struct.unpack('>Q', a[0])[0]
        else:
            self._raw = a[-1].raw
    def raw(self): return struct.pack('>Q', self._raw)
    def laterThan(self, o):
        return self if self._raw > o._raw else SymTS(o._raw + 1)
    def __lt__(s, o): return s._raw < o._raw
    def __le__(s, o): return s._raw <= o._raw
    def __gt__(s, o): return s._raw > o._raw
    def __ge__(s, o): return s._raw >= o._raw
    def __eq__(s, o): return s._raw == o._raw
    def timeTime(self): return self._raw
class SymClock:
    def __init__(self, vals): self.vals = list(vals); self.cur = None
    def time(self):
        self.cur = Now(self.vals.pop(0)); return self.cur
    def gmtime(self, t=None): return (0, 0, 0, 0, 0, 0, 0, 0, 0)
    def __getattr__(self, n):
        import time; return getattr(time, n)

def mono(c1: int, c2: int, c3: int) -> bool:
    """
    pre: 0 <= c1 < 2**62 and 0 <= c2 < 2**62 and 0 <= c3 < 2**62
    post: _
    """
    F = sys.modules['ZODB.FileStorage.FileStorage']
    with NoTracing():
        v = vfs.VFS(); vfs.install(v)
        clk = SymClock([1000, 1000, 1000])
        for m in (B, F): m.time = clk; m.TimeStamp = SymTS
        fs = FileStorage('/Data.fs')
    clk.vals = [c1, c2, c3]
    tids = []
    for i in range(3):
        t = TransactionMetaData()
        fs.tpc_begin(t)
        tids.append(fs._ts._raw)
        fs.tpc_abort(t)
    return tids[0] < tids[1] < tids[2]
