import sys, vfs, logging; logging.disable(logging.CRITICAL)
import ZODB.utils, ZODB.mvccadapter, ZODB.MappingStorage, ZODB.FileStorage
from ZODB.Connection import TransactionMetaData
from ZODB.utils import p64, z64
from ZODB.serialize import referencesf
from crosshair import NoTracing
import p9
from p9 import Sched, SLock, SRLock, Blocked

class SCond(SRLock):
    def wait(self, timeout=None):
        raise Blocked()     # predicate false and nobody else can run inside an atomic injected op
    def wait_for(self, pred, timeout=None):
        if not pred(): raise Blocked()
        return True
    def notify(self, n=1): pass
    def notify_all(self): pass
    notifyAll = notify_all

def run(at: int, role: int) -> bool:
    """
    pre: 0 <= at and 0 <= role < 2
    post: _
    """
    F = sys.modules['ZODB.FileStorage.FileStorage']
    p9.SCHED = S = Sched(at)
    with NoTracing():
        ZODB.utils.Lock = SLock; ZODB.utils.RLock = SRLock; ZODB.utils.Condition = SCond; ZODB.mvccadapter.Lock = SLock
        F.utils = ZODB.utils
        v = vfs.VFS(); vfs.install(v); vfs.install_clock(vfs.FakeTime())
        S.busy = True
        st = F.FileStorage('/Data.fs')
        ad = ZODB.mvccadapter.MVCCAdapter(st)
        w = ad.new_instance(); r = ad.new_instance()
        ser = {p64(1): z64, p64(2): z64}
        def commit(v):
            t = TransactionMetaData()
            w.tpc_begin(t)
            for o in (p64(1), p64(2)):
                w.store(o, ser[o], b'v%d' % v, '', t)
            w.tpc_vote(t)
            tid = w.tpc_finish(t)
            for o in ser: ser[o] = tid
        def read():
            r.poll_invalidations()
            a = r.load(p64(1)); b = r.load(p64(2))
            return a == b
        commit(0)
        S.busy = False
    res = [True]
    try:
        if role == 0:
            S.pending.append(lambda: commit(1))
            return read()
        else:
            S.pending.append(lambda: res.__setitem__(0, read()))
            commit(1)
            return res[0]
    except Blocked:
        return True
