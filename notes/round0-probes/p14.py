import sys, vfs, zpatch, symstruct, logging; logging.disable(logging.CRITICAL)
import ZODB.fsrecover as R
from ZODB.FileStorage import FileStorage
from ZODB.Connection import TransactionMetaData
from ZODB.utils import p64, u64, z64
from crosshair import NoTracing

def build():
    v = vfs.VFS(); vfs.install(v); vfs.install_clock(vfs.FakeTime())
    R.open = sys.modules['ZODB.FileStorage.FileStorage'].open
    R.os = sys.modules['ZODB.FileStorage.FileStorage'].os
    R.print = lambda *a, **k: None
    fs = FileStorage('/in.fs')
    prev = z64; tids = []
    for i in range(3):
        t = TransactionMetaData()
        fs.tpc_begin(t); fs.store(p64(1), prev, b'(cX\nY\n.' + b'}q%d.' % i, '', t); fs.tpc_vote(t); prev = fs.tpc_finish(t); tids.append(prev)
    fs.close()
    return v, tids

class Fuel(Exception): pass

def rec(d: int, b0: int, b1: int) -> bool:
    """
    pre: 0 <= b0 < 256 and 0 <= b1 < 256 and 100 <= d < 104
    post: _
    """
    with NoTracing():
        v, tids = build()
        data = v.files['/in.fs']
        for k in [k for k in v.files if k != '/in.fs']: del v.files[k]
    dd = int(d)
    v.files['/in.fs'] = data[:dd] + bytes([b0, b1]) + data[dd + 2:]
    R.recover('/in.fs', '/out.fs', force=True)
    out = FileStorage('/out.fs', read_only=True)
    got = [t.tid for t in out.iterator()]
    # every output txn is an input txn, in order
    it = iter(tids)
    return all(any(g == x for x in it) for g in got)
