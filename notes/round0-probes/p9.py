import sys, vfs, logging; logging.disable(logging.CRITICAL)
import ZODB.utils, ZODB.mvccadapter, ZODB.MappingStorage, ZODB.FileStorage
from ZODB.Connection import TransactionMetaData
from ZODB.utils import p64, z64
from crosshair import NoTracing

class Sched:
    def __init__(self, at): self.at = at; self.n = 0; self.cur = 0; self.pending = []; self.busy = False
    def point(self):
        if self.busy: return
        i = self.n; self.n += 1
        if self.pending and i == self.at:
            op = self.pending.pop(0)
            self.busy = True; prev = self.cur; self.cur = 1
            try: op()
            finally: self.cur = prev; self.busy = False

SCHED = None
class Blocked(Exception): pass
class SLock:
    reentrant = False
    def __init__(self): self.owner = None; self.count = 0
    def acquire(self, blocking=True, timeout=-1):
        SCHED.point()
        if self.owner is not None and not (self.reentrant and self.owner == SCHED.cur):
            raise Blocked()
        self.owner = SCHED.cur; self.count += 1
        return True
    def release(self):
        if self.count <= 0: raise RuntimeError('release unlocked lock')
        self.count -= 1
        if self.count == 0: self.owner = None
        SCHED.point()
    def __enter__(self): self.acquire()
    def __exit__(self, *a): self.release()
class SRLock(SLock): reentrant = True

def install_locks():
    ZODB.utils.Lock = SLock; ZODB.utils.RLock = SRLock; ZODB.mvccadapter.Lock = SLock

def run(at: int) -> bool:
    """
    pre: 0 <= at
    post: _
    """
    global SCHED
    SCHED = Sched(at)
    with NoTracing():
        install_locks(); vfs.install_clock(vfs.FakeTime())
        SCHED.busy = True
        st = ZODB.MappingStorage.MappingStorage()
        ad = ZODB.mvccadapter.MVCCAdapter(st)
        w = ad.new_instance(); r = ad.new_instance()
        ser = {p64(1): z64, p64(2): z64}
        def commit(v):
            t = TransactionMetaData()
            w.tpc_begin(t)
            for o in (p64(1), p64(2)):
                w.store(o, ser[o], b'v%d' % v, '', t)
            w.tpc_vote(t)
            tid = w.tpc_finish(t)
            for o in ser: ser[o] = tid
        commit(0)
        SCHED.busy = False
    SCHED.pending.append(lambda: commit(1))
    try:
        r.poll_invalidations()
        a = r.load(p64(1))
        b = r.load(p64(2))
    except Blocked:
        return True
    return a == b
