import zpatch
from ZODB.fsIndex import fsIndex
from ZODB.utils import p64, u64

def model_minkey(keys, q):
    c = [k for k in keys if k >= q]
    if not c:
        return None
    return min(c)

def check_minkey(a: int, b: int, q: int) -> bool:
    """
    pre: 0 <= a < 2**20 and 0 <= b < 2**20 and 0 <= q < 2**20
    post: _
    """
    idx = fsIndex()
    idx[p64(a)] = 100
    idx[p64(b)] = 200
    exp = model_minkey([a, b], q)
    try:
        got = u64(idx.minKey(p64(q)))
    except ValueError:
        got = None
    return got == exp
