import sys, vfs, logging; logging.disable(logging.CRITICAL)
import ZODB, transaction, ZODB.FileStorage
from ZODB.MappingStorage import MappingStorage
from persistent.mapping import PersistentMapping
from crosshair import NoTracing

def scenario(n: int) -> bool:
    """
    pre: 0 <= n < 3
    post: _
    """
    with NoTracing():
        vfs.install_clock(vfs.FakeTime())
        db = ZODB.DB(MappingStorage())
        tm1 = transaction.TransactionManager(); tm2 = transaction.TransactionManager()
        c1 = db.open(tm1)
        c1.root()['x'] = PersistentMapping(); c1.root()['y'] = PersistentMapping()
        c1.root()['x']['v'] = 0; c1.root()['y']['v'] = 0
        tm1.commit()
        c2 = db.open(tm2)
        a = c2.root()['x']['v']
    for i in range(n):
        with NoTracing():
            c1.root()['x']['v'] = i + 1; c1.root()['y']['v'] = i + 1
            tm1.commit()
    b = c2.root()['y']['v']
    return a == b
