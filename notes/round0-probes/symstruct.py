"""Symbolic-friendly big-endian struct pack/unpack (probe)."""
import struct as _struct, re
from crosshair import register_patch, NoTracing
from crosshair.core import CrossHairValue

_real_unpack = _struct.unpack
_real_pack = _struct.pack
_tok = re.compile(r'(\d*)([sQqHhIiBbc])')
_size = {'Q': 8, 'q': 8, 'H': 2, 'h': 2, 'I': 4, 'i': 4, 'B': 1, 'b': 1}

def _is_sym(x):
    with NoTracing():
        return isinstance(x, CrossHairValue)

def sym_unpack(fmt, data):
    if not _is_sym(data) or not isinstance(fmt, str) or not fmt.startswith('>'):
        return _real_unpack(fmt, data)
    out = []; pos = 0
    for n, c in _tok.findall(fmt[1:]):
        if c == 's':
            k = int(n or 1); out.append(data[pos:pos + k]); pos += k
        elif c == 'c':
            out.append(data[pos:pos + 1]); pos += 1
        else:
            for _ in range(int(n or 1)):
                k = _size[c]; v = 0
                for i in range(k):
                    v = v * 256 + data[pos + i]
                pos += k
                out.append(v)
    if pos != len(data):
        raise _struct.error('unpack requires a buffer of %d bytes' % pos)
    return tuple(out)

import crosshair.core as _cc
_cc._PATCH_REGISTRATIONS[_struct.unpack] = sym_unpack
