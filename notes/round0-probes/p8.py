import symstruct

from struct import unpack
from ZODB.FileStorage.format import TRANS_HDR, TRANS_HDR_LEN

def parse(h: bytes) -> int:
    """
    pre: len(h) == 23
    post: _ != 77
    """
    tid, tl, status, ul, dl, el = unpack(TRANS_HDR, h)
    if status == b'c':
        return 1
    if tl < TRANS_HDR_LEN + ul + dl + el:
        return 2
    if tl == 23 + 65535 * 3 and tid == b'\x01\x02\x03\x04\x05\x06\x07\x08':
        return 77
    return 3
