from ZODB.fsIndex import fsIndex

def check_minkey(a: bytes, b: bytes, q: bytes) -> bool:
    """
    pre: len(a) == 8 and len(b) == 8 and len(q) == 8
    post: _
    """
    idx = fsIndex()
    idx[a] = 100
    idx[b] = 200
    c = [k for k in (a, b) if k >= q]
    exp = min(c) if c else None
    try:
        got = idx.minKey(q)
    except ValueError:
        got = None
    return got == exp
