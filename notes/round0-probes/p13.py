import sys, vfs, zpatch, logging; logging.disable(logging.CRITICAL)
import ZODB, transaction, ZODB.BaseStorage as B, ZODB.utils as U, ZODB.FileStorage.fspack as FP
from ZODB.FileStorage import FileStorage
from ZODB.serialize import referencesf
from ZODB.utils import p64, u64, z64, maxtid
from ZODB.POSException import POSKeyError
from persistent.mapping import PersistentMapping
from crosshair import NoTracing
import struct, time as _time
from p12 import SymTS, Now

class PackClock:
    """gmtime/time for FileStorage namespace: floats -> real, Now tokens -> symbolic"""
    def __init__(self): self.now = 1.7e9
    def time(self):
        self.now += 1.0; return self.now
    def gmtime(self, t=None):
        if isinstance(t, Now): return (0,)*9
        return _time.gmtime(self.now if t is None else t)
    def __getattr__(self, n): return getattr(_time, n)

class TSDispatch:
    """TimeStamp(...) -> SymTS when a Now token is involved, else the real one."""
    def __init__(self, real): self.real = real
    def __call__(self, *a):
        if any(isinstance(x, Now) for x in a): return SymTS(*a)
        return self.real(*a)

def packcheck(pt: int) -> bool:
    """
    pre: 0 < pt < 2**63
    post: _
    """
    F = sys.modules['ZODB.FileStorage.FileStorage']
    with NoTracing():
        v = vfs.VFS(); vfs.install(v); vfs.install_tempfile(v)
        clk = PackClock()
        for m in (B, F, U, sys.modules['ZODB.Connection']): m.time = clk
        F.TimeStamp = TSDispatch(F.__dict__.get('_realTS') or F.TimeStamp); F._realTS = F.TimeStamp.real
        fs = FileStorage('/Data.fs')
        db = ZODB.DB(fs); tm = transaction.TransactionManager(); c = db.open(tm); r = c.root()
        r['a'] = PersistentMapping(); r['g'] = PersistentMapping(); tm.commit()
        r['a']['x'] = 1; tm.commit()
        del r['g']; tm.commit()          # g becomes garbage
        r['a']['x'] = 2; tm.commit()
        r['b'] = PersistentMapping(); tm.commit()
        oids = [p64(i) for i in range(4)]
        tids = [t.tid for t in fs.iterator()]
        def snap(before):
            out = {}
            for o in oids:
                try: out[o] = fs.loadBefore(o, before)
                except POSKeyError: out[o] = 'nokey'
            return out
        pre_cur = snap(maxtid)
    fs.pack(Now(pt), referencesf)
    with NoTracing():
        post_cur = snap(maxtid)
        ok = all(post_cur[o] == pre_cur[o] for o in oids if o != p64(2))
        db.close()
    return ok
