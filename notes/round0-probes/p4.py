import vfs
from ZODB.FileStorage import FileStorage
from ZODB.Connection import TransactionMetaData
from ZODB.utils import p64, u64, z64

def build():
    v = vfs.VFS(); vfs.install(v); vfs.install_clock(vfs.FakeTime())
    fs = FileStorage('/Data.fs')
    tids = []
    prev = z64
    for i in range(3):
        t = TransactionMetaData()
        fs.tpc_begin(t)
        fs.store(p64(1), prev, b'data%d' % i, '', t)
        fs.tpc_vote(t)
        prev = fs.tpc_finish(t)
        tids.append(prev)
    return fs, tids

def check_loadbefore(q: bytes) -> bool:
    """
    pre: len(q) == 8
    post: _
    """
    fs, tids = build()
    r = fs.loadBefore(p64(1), q)
    cands = [i for i, t in enumerate(tids) if t < q]
    if not cands:
        ok = r is None
    else:
        i = cands[-1]
        end = tids[i + 1] if i + 1 < len(tids) else None
        ok = r == (b'data%d' % i, tids[i], end)
    fs.close()
    return ok
