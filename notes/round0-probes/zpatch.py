import struct
from crosshair import register_patch
import ZODB.utils as U
def _p64(v):
    try:
        return struct.pack('>Q', v)
    except struct.error as e:
        raise ValueError(*(e.args + (v,)))
def _u64(v):
    try:
        return struct.unpack('>Q', v)[0]
    except struct.error as e:
        raise ValueError(*(e.args + (v,)))
register_patch(U.p64, _p64)
register_patch(U.u64, _u64)
