import sys, vfs, logging; logging.disable(logging.CRITICAL)
import ZODB, transaction, ZODB.utils, ZODB.mvccadapter, ZODB.DB as _DBm
from ZODB.Connection import TransactionMetaData
from ZODB.utils import p64, z64, load_current
from ZODB.serialize import referencesf
from persistent.mapping import PersistentMapping
from crosshair import NoTracing, ResumedTracing
import p9
from p9 import SLock, SRLock, Blocked
from p18 import SCond

class Sched2:
    def __init__(self, at): self.at = at; self.n = 0; self.cur = 0; self.pending = []; self.busy = True; self.ran = False
    def point(self):
        if self.busy: return
        i = self.n; self.n += 1
        if not self.pending: return
        with ResumedTracing():
            hit = (i == self.at)
        if hit:
            op = self.pending.pop(0)
            self.busy = True; prev = self.cur; self.cur = 1
            try: op(); self.ran = True
            finally: self.cur = prev; self.busy = False

# yield at VFS ops too
for name in ('read', 'write', 'seek', 'truncate', 'close'):
    def mk(orig):
        def f(self, *a, **k):
            if p9.SCHED is not None: p9.SCHED.point()
            return orig(self, *a, **k)
        return f
    setattr(vfs.VFile, name, mk(getattr(vfs.VFile, name)))

def packrace(at: int) -> bool:
    """
    pre: 0 <= at
    post: _
    """
    F = sys.modules['ZODB.FileStorage.FileStorage']
    p9.SCHED = S = Sched2(at)
    with NoTracing():
        ZODB.utils.Lock = SLock; ZODB.utils.RLock = SRLock; ZODB.utils.Condition = SCond; ZODB.mvccadapter.Lock = SLock
        F.utils = ZODB.utils; _DBm.utils = ZODB.utils
        v = vfs.VFS(); vfs.install(v); vfs.install_tempfile(v)
        clk = vfs.FakeTime(); vfs.install_clock(clk); sys.modules['ZODB.DB'].time = clk
        fs = F.FileStorage('/Data.fs')
        db = ZODB.DB(fs); tm = transaction.TransactionManager(); c = db.open(tm); r = c.root()
        r['a'] = PersistentMapping(); r['g'] = PersistentMapping(); tm.commit()
        r['a']['x'] = 1; tm.commit()
        del r['g']; tm.commit()
        r['a']['x'] = 2; tm.commit()
        data1, ser1 = load_current(fs, p64(1))
        newtid = []
        def commit():
            t = TransactionMetaData()
            fs.tpc_begin(t); fs.store(p64(1), ser1, data1 + b' ', '', t); fs.tpc_vote(t); newtid.append(fs.tpc_finish(t))
        S.pending.append(commit)
        S.busy = False
        try:
            fs.pack(clk.now + 100, referencesf)
        except Blocked:
            return True
        S.busy = True
        if not S.ran:
            return True
        ok = load_current(fs, p64(1)) == (data1 + b' ', newtid[0])
        ok = ok and [t.tid for t in fs.iterator()][-1] == newtid[0]
        fs.close()
        fs2 = F.FileStorage('/Data.fs')
        ok = ok and load_current(fs2, p64(1)) == (data1 + b' ', newtid[0]) and load_current(fs2, z64)[0] == load_current(fs, z64)[0] if False else ok
        ok = ok and load_current(fs2, p64(1)) == (data1 + b' ', newtid[0])
        return ok
