import sys, vfs, zpatch, logging; logging.disable(logging.CRITICAL)
import ZODB.FileStorage
from ZODB.DemoStorage import DemoStorage
from ZODB.MappingStorage import MappingStorage
from ZODB.Connection import TransactionMetaData
from ZODB.utils import p64, u64, z64
from crosshair import NoTracing

def newoid() -> bool:
    """
    post: _
    """
    with NoTracing():
        vfs.install_clock(vfs.FakeTime())
        base = MappingStorage()
        t = TransactionMetaData(); base.tpc_begin(t); base.store(p64(77), z64, b'x', '', t); base.tpc_vote(t); base.tpc_finish(t)
    d = DemoStorage(base=base)
    o1 = d.new_oid()
    o2 = d.new_oid()
    return o1 != p64(77) and o2 != p64(77) and o1 != o2
