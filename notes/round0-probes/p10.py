import os
os.environ['PURE_PYTHON'] = '1'
import zodbpickle.pickle_3 as P   # pure classes _Pickler/_Unpickler

class SymBytesIO:
    def __init__(self, initial=b''):
        self.buf = initial; self.pos = 0
    def write(self, b):
        self.buf = self.buf[:self.pos] + b + self.buf[self.pos + len(b):]
        self.pos += len(b); return len(b)
    def read(self, n=-1):
        if n is None or n < 0: r = self.buf[self.pos:]
        else: r = self.buf[self.pos:self.pos + n]
        self.pos += len(r); return r
    def readline(self):
        i = self.buf.find(b'\n', self.pos)
        e = len(self.buf) if i < 0 else i + 1
        r = self.buf[self.pos:e]; self.pos = e; return r
    def getvalue(self): return self.buf
    def seek(self, p, w=0): self.pos = p
    def tell(self): return self.pos
    def truncate(self): self.buf = self.buf[:self.pos]

def roundtrip(a: int, b: int) -> int:
    """
    pre: 0 <= a < 256 and 0 <= b < 256
    post: _ == a - b
    """
    f = SymBytesIO()
    P._Pickler(f, 3).dump({'x': a, 'y': [b, 'k']})
    g = SymBytesIO(f.getvalue())
    d = P._Unpickler(g).load()
    return d['x'] - d['y'][0]
