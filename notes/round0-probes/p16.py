D = {b'\x00'*7 + b'\x05': 1, b'\x00'*7 + b'\x09': 2}
S = {b'\x00'*7 + b'\x07'}
def look(k: bytes) -> int:
    """
    pre: len(k) == 8
    post: _ != 2
    """
    if k in S:
        return 7
    return D.get(k, 0)
