import sys, vfs, logging; logging.disable(logging.CRITICAL)
from ZODB.FileStorage import FileStorage
from ZODB.Connection import TransactionMetaData
from ZODB.utils import p64, u64, z64, load_current
from ZODB.POSException import POSKeyError

def record():
    v = vfs.VFS(); vfs.install(v); vfs.install_clock(vfs.FakeTime())
    fs = FileStorage('/Data.fs')
    t = TransactionMetaData()
    fs.tpc_begin(t); fs.store(p64(1), z64, b'first', '', t); fs.tpc_vote(t); tid1 = fs.tpc_finish(t)
    base = v.files['/Data.fs']
    mark = len(v.log)
    t = TransactionMetaData(b'user', b'desc')
    fs.tpc_begin(t); fs.store(p64(1), tid1, b'second!', '', t); fs.store(p64(2), z64, b'x'*10, '', t)
    fs.tpc_vote(t); tid2 = fs.tpc_finish(t)
    log = [e for e in v.log[mark:] if e[0] in 'wt' and e[1] == '/Data.fs']
    return base, log, tid1, tid2

def apply(img, e, j=None):
    if e[0] == 'w':
        _, _, pos, b = e
        if j is not None:
            b = b[:j]
        if pos > len(img):
            img = img + b'\0' * (pos - len(img))
        return img[:pos] + b + img[pos + len(b):]
    else:
        return img[:e[2]]

def check_crash(k: int, j: int) -> bool:
    """
    pre: 0 <= k and 0 <= j
    post: _
    """
    base, log, tid1, tid2 = record()
    if k > len(log):
        return True
    img = base
    for i in range(len(log)):
        if i < k:
            img = apply(img, log[i])
    if k < len(log):
        e = log[k]
        if e[0] == 'w':
            if j > len(e[3]):
                return True
            img = apply(img, e, j)
    # reopen
    v = vfs.VFS(); vfs.install(v); vfs.install_clock(vfs.FakeTime(start=1.8e9))
    v.files['/Data.fs'] = img
    fs = FileStorage('/Data.fs')
    # status write is the entry that writes 1 byte b' '
    si = [i for i, e in enumerate(log) if e[0] == 'w' and e[3] == b' '][0]
    committed = k > si or (k == si and j >= 1)
    d1, s1 = load_current(fs, p64(1))
    if committed:
        ok = (d1, s1) == (b'second!', tid2) and load_current(fs, p64(2)) == (b'x'*10, tid2) and fs.lastTransaction() == tid2
    else:
        ok = (d1, s1) == (b"first", tid1)
        try:
            load_current(fs, p64(2)); ok = False
        except POSKeyError:
            pass
    return ok
