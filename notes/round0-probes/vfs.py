"""Minimal in-memory file layer for probing."""
import errno

class VFS:
    def __init__(self):
        self.files = {}   # name -> bytes
        self.log = []

class VFile:
    def __init__(self, fs, name, mode='r', buffering=-1):
        self.fs = fs; self.name = name; self.mode = mode
        self.closed = False
        if 'w' in mode:
            fs.files[name] = b''
        elif name not in fs.files:
            if 'a' in mode:
                fs.files[name] = b''
            else:
                raise FileNotFoundError(errno.ENOENT, 'no such file', name)
        self.pos = 0
        self.writable = ('w' in mode) or ('+' in mode) or ('a' in mode)
    def __enter__(self): return self
    def __exit__(self, *a): self.close()
    def seek(self, off, whence=0):
        if whence == 0: self.pos = off
        elif whence == 1: self.pos += off
        else: self.pos = len(self.fs.files[self.name]) + off
        return self.pos
    def tell(self): return self.pos
    def read(self, n=-1):
        data = self.fs.files[self.name]
        if n is None or n < 0:
            r = data[self.pos:]
        else:
            r = data[self.pos:self.pos + n]
        self.pos += len(r)
        return r
    def write(self, b):
        data = self.fs.files[self.name]
        if self.pos > len(data):
            data = data + b'\0' * (self.pos - len(data))
        self.fs.files[self.name] = data[:self.pos] + b + data[self.pos + len(b):]
        self.fs.log.append(('w', self.name, self.pos, b))
        self.pos += len(b)
        return len(b)
    def truncate(self, size=None):
        if size is None: size = self.pos
        self.fs.files[self.name] = self.fs.files[self.name][:size]
        self.fs.log.append(('t', self.name, size))
        return size
    def flush(self): pass
    def fileno(self): return 99
    def close(self): self.closed = True

class _Path:
    def __init__(self, fs, real): self.fs = fs; self.real = real
    def exists(self, p): return p in self.fs.files
    def __getattr__(self, n): return getattr(self.real, n)

class OS:
    def __init__(self, fs):
        import os as _os
        self._os = _os
        self.fs = fs
        self.path = _Path(fs, _os.path)
    def remove(self, p):
        if p not in self.fs.files: raise FileNotFoundError(errno.ENOENT, 'x', p)
        del self.fs.files[p]
    unlink = remove
    def rename(self, a, b):
        self.fs.files[b] = self.fs.files.pop(a)
    def fsync(self, fd): self.fs.log.append(('fsync',))
    def __getattr__(self, n): return getattr(self._os, n)

class FakeLock:
    def __init__(self, name): pass
    def close(self): pass

def install(fs):
    import sys, ZODB.FileStorage.FileStorage, ZODB.FileStorage.fspack as P, ZODB.fsIndex as I
    F = sys.modules["ZODB.FileStorage.FileStorage"]
    o = OS(fs)
    def vopen(name, mode='r', buffering=-1):
        return VFile(fs, name, mode, buffering)
    for m in (F, P, I):
        m.open = vopen
        m.os = o
    F.LockFile = FakeLock
    F.fsync = o.fsync

class FakeTime:
    """Deterministic clock; module-like."""
    def __init__(self, start=1.7e9, step=1.0):
        import time as _t
        self._t = _t
        self.now = start; self.step = step
    def time(self):
        self.now += self.step
        return self.now
    def gmtime(self, t=None):
        return self._t.gmtime(self.now if t is None else t)
    def __getattr__(self, n): return getattr(self._t, n)

def install_clock(clock):
    import sys, ZODB.BaseStorage as B, ZODB.utils as U, ZODB.Connection as C
    F = sys.modules["ZODB.FileStorage.FileStorage"]
    for m in (B, U, F, C):
        m.time = clock

class FakeTempfile:
    def __init__(self, fs): self.fs = fs; self.n = 0
    def TemporaryFile(self, mode='w+b', prefix='tmp', **kw):
        self.n += 1
        return VFile(self.fs, '/tmp/%s%d' % (prefix, self.n), 'w+b')
    def __getattr__(self, n):
        import tempfile
        return getattr(tempfile, n)

def install_tempfile(fs):
    import ZODB.Connection as C
    C.tempfile = FakeTempfile(fs)
