import sys, vfs, zpatch, logging; logging.disable(logging.CRITICAL)
import ZODB.fsrecover as R
from ZODB.FileStorage import FileStorage
from ZODB.utils import p64, u64, z64
from crosshair import NoTracing
import p14

class Fuel(Exception): pass
_orig_read = vfs.VFile.read
COUNT = [0]
def counted_read(self, n=-1):
    COUNT[0] += 1
    if COUNT[0] > 400: raise Fuel()
    return _orig_read(self, n)
vfs.VFile.read = counted_read

def trunc(L: int) -> bool:
    """
    pre: 4 <= L <= 250
    post: _
    """
    with NoTracing():
        v, tids = p14.build()
        data = v.files['/in.fs']
        for k in [k for k in v.files if k != '/in.fs']: del v.files[k]
        COUNT[0] = 0
    if L > len(data):
        return True
    v.files['/in.fs'] = data[:L]
    try:
        R.recover('/in.fs', '/out.fs', force=True)
    except Fuel:
        return False          # non-termination suspected
    out = FileStorage('/out.fs', read_only=True)
    got = [t.tid for t in out.iterator()]
    return got == tids[:len(got)]
