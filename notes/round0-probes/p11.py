import sys, vfs, logging; logging.disable(logging.CRITICAL)
import ZODB, transaction, ZODB.FileStorage
from ZODB.MappingStorage import MappingStorage
from persistent.mapping import PersistentMapping
from crosshair import NoTracing
from typing import List

N = 8
def prog(ops: List[int]) -> bool:
    """
    pre: len(ops) == 8 and all(0 <= o < 4 for o in ops)
    post: _
    """
    with NoTracing():
        vfs.install_clock(vfs.FakeTime()); vfs.install_tempfile(vfs.VFS())
        db = ZODB.DB(MappingStorage())
        tm = transaction.TransactionManager()
        c = db.open(tm); r = c.root()
        sps = []; created = []   # (obj, index of savepoint count at creation)
        n = 0
    ok = True
    for i in range(N):
        o = ops[i]
        if o == 0:        # add new object
            with NoTracing():
                n += 1; ob = PersistentMapping(); r['k%d' % n] = ob; created.append((ob, len(sps)))
        elif o == 1:      # savepoint
            with NoTracing():
                sps.append(tm.savepoint())
        elif o == 2:      # rollback to first savepoint
            with NoTracing():
                if sps:
                    sps[0].rollback(); del sps[1:]
                    for ob, lvl in created:
                        if lvl >= 1 and ob._p_jar is not None:
                            ok = False
                    created = [(ob, l) for ob, l in created if l < 1]
        else:             # modify root
            with NoTracing():
                r['m'] = i
    with NoTracing():
        tm.abort()
    return ok
