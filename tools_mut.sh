#!/bin/sh
# usage: tools_mut.sh <file-in-repo> <sed-expr> <check args...>   (applies, runs, reverts)
f=$1; e=$2; shift 2
cd /repo && sed -i "$e" "$f" && git diff --stat | tail -1
cd /verif && ./check "$@" 2>&1 | grep -E "VIOLATION|HARNESS-ERROR|^OK|harness=" | head -8
cd /repo && git checkout -- . 
